"""The Analysis object: repository index + resolver + shared summaries."""
import ast
import time

from .index import Repo, AnalysisError, FuncInfo, norm
from .resolve import Resolver, walk_own
from .cfg import cfg_of, reachable_without_edges
from . import const as K
from .report import RuleRun


PROPERTY_TEXT = {}      # prop id -> (decided, not decided); filled by rules/*


GLOBAL_NORMALISE = True
_ANCHORS = None


def rule_anchor_names():
    """Every identifier that occurs inside a string literal of the rule
    sources: the functions the rules know by name. A private helper whose
    name no rule mentions is an implementation detail of its callers."""
    global _ANCHORS
    if _ANCHORS is None:
        import glob
        import os
        import re
        names = set()
        here = os.path.dirname(os.path.abspath(__file__))
        for p in glob.glob(os.path.join(here, 'rules', '*.py')) + [
                os.path.join(here, x) for x in ('analysis.py', 'tokstate.py',
                                                'stateflow.py', 'resolve.py')]:
            tree = ast.parse(open(p, encoding='utf-8').read())
            for n in ast.walk(tree):
                if isinstance(n, ast.Constant) and isinstance(n.value, str) \
                        and len(n.value) < 200:
                    names |= set(re.findall(r'[A-Za-z_][A-Za-z0-9_]*', n.value))
        _ANCHORS = frozenset(names)
    return _ANCHORS


class Analysis:
    def __init__(self, root):
        t0 = time.time()
        self.repo = Repo(root)
        self.rs = Resolver(self.repo)
        self._memo = {}
        self.normalised_functions = 0
        if GLOBAL_NORMALISE:
            self._normalise_all()
        self.setup_s = time.time() - t0

    def _normalise_all(self):
        """Every function is analysed in its normalised view: private helpers
        no rule knows by name are expanded into their callers, alias locals of
        self attributes are substituted (sa/inline.py)."""
        from .inline import normalised
        keep = rule_anchor_names()
        swaps = []
        for f in list(self.repo.all_functions()):
            if f.module.name.startswith('bardolph.fakes'):
                continue
            g = normalised(self, f, keep)
            if g is not f:
                swaps.append((f, g))
        if not swaps:
            return
        # a helper every caller has absorbed has no life of its own: rules
        # that walk "all functions" must not see it a second time, detached
        # from the context (lock, loop, guard) it runs in
        expanded_by = {}
        for f, g in swaps:
            for h in getattr(g, 'expanded', ()):
                expanded_by.setdefault(h, set()).add(f)
        absorbed = set()
        for h, by in expanded_by.items():
            callers = set(s.func for s in self.rs.callers(h))
            if callers and callers <= by:
                absorbed.add(h)
        for f, g in swaps:
            f.original_node = f.node
            f.node = g.node
            f._cfg = None
            f.expanded = getattr(g, 'expanded', set())
        for h in absorbed:
            mod = h.module
            if h in mod.all_functions:
                mod.all_functions.remove(h)
            if h.cls is not None and h.cls.methods.get(h.name) is h:
                del h.cls.methods[h.name]
            elif h.cls is None and mod.functions.get(h.name) is h:
                del mod.functions[h.name]
        self.absorbed_helpers = sorted(h.short for h in absorbed)
        self.normalised_functions = len(swaps)
        self.rs = Resolver(self.repo)
        self._memo = {}

    # ------------------------------------------------------------ basics
    def func(self, mod, name):
        return self.repo.func(mod, name)

    def cls(self, mod, name):
        return self.repo.cls(mod, name)

    def cfg(self, func):
        return cfg_of(func)

    def fold(self, expr, where, env=None):
        ctx = K.ctx_for(self.repo, where)
        if env:
            ctx.env = env
        return K.fold(expr, ctx)

    def try_fold(self, expr, where, default=None):
        try:
            return self.fold(expr, where)
        except K.Unfoldable:
            return default

    def peval(self, func, subst, max_steps=400):
        """Constant-propagating walk of func's CFG with `subst` (normalised
        expression text -> value). Returns the folded return value; raises
        Unfoldable when a branch condition or the result does not fold."""
        cfg = self.cfg(func)
        ctx = K.ctx_for(self.repo, func)
        ctx.subst = dict(subst)
        env = {}
        ctx.env = env
        n = cfg.entry
        steps = 0
        while True:
            steps += 1
            if steps > max_steps:
                raise K.Unfoldable('too many steps')
            if n.is_return:
                if n.kind == 'implicit-return' or n.ret_expr is None:
                    return None
                if n.ret_truth is not None:
                    return K.fold(n.ret_expr, ctx)
                return K.fold(n.ret_expr, ctx)
            if n.kind == 'cond':
                v = K.fold(n.ast, ctx)
                want = bool(v)
                nxt = [m for m, lab in n.succs if lab is want]
                if not nxt:
                    raise K.Unfoldable('no %s edge' % want)
                n = nxt[0]
                continue
            if n.kind == 'stmt' and isinstance(n.ast, ast.Assign) \
                    and len(n.ast.targets) == 1 \
                    and isinstance(n.ast.targets[0], ast.Name):
                env[n.ast.targets[0].id] = K.fold(n.ast.value, ctx)
            elif n.kind in ('stmt',) and isinstance(n.ast, ast.Expr) \
                    and isinstance(n.ast.value, ast.Constant):
                pass
            elif n.kind == 'stmt' and isinstance(n.ast, ast.Pass):
                pass        # left behind by the normalised view (alias local)
            elif n.kind not in ('entry',):
                raise K.Unfoldable('statement %s' % n.text())
            nxt = [m for m, lab in n.succs if lab is None]
            if not nxt:
                raise K.Unfoldable('dead end')
            n = nxt[0]

    def calls_under(self, func, subst, limit=2000):
        """Callee names reachable in func when the expressions in `subst`
        (normalised text -> value) are known: conditions that fold are
        followed on one side only, the others on both."""
        out = set()
        for n in self.nodes_under(func, subst, limit):
            for c in n.calls():
                out |= set(self.callee_names(func, c))
        return out

    def path_under(self, func, subst, goal_pred, avoid=()):
        """A CFG path from the entry to a node satisfying goal_pred that
        avoids `avoid` and only takes the edges that are feasible when the
        expressions in `subst` have the given values; None if there is none."""
        cfg = self.cfg(func)
        ctx = K.ctx_for(self.repo, func)
        ctx.subst = dict(subst)
        ctx.env = {}
        avoid_ids = set(n.id for n in avoid)
        prev = {cfg.entry.id: None}
        todo = [cfg.entry]
        while todo:
            n = todo.pop(0)
            if goal_pred(n):
                path = []
                cur = n
                while cur is not None:
                    path.append(cur)
                    cur = prev[cur.id]
                return list(reversed(path))
            want = None
            if n.kind == 'cond':
                try:
                    want = bool(K.fold(n.ast, ctx))
                except K.Unfoldable:
                    want = None
            for m, lab in n.succs:
                if m.id in prev or m.id in avoid_ids:
                    continue
                if want is not None and lab in (True, False) and lab is not want:
                    continue
                prev[m.id] = n
                todo.append(m)
        return None

    def nodes_under(self, func, subst, limit=2000):
        """CFG nodes of func reachable under `subst` (see calls_under)."""
        cfg = self.cfg(func)
        ctx = K.ctx_for(self.repo, func)
        ctx.subst = dict(subst)
        ctx.env = {}
        seen, todo, out = set(), [cfg.entry], []
        while todo:
            n = todo.pop()
            if n.id in seen:
                continue
            seen.add(n.id)
            out.append(n)
            if len(seen) > limit:
                raise K.Unfoldable('too many nodes')
            if n.kind == 'cond':
                try:
                    want = bool(K.fold(n.ast, ctx))
                except K.Unfoldable:
                    want = None
                for m, lab in n.succs:
                    if want is None or lab is want or lab not in (True, False):
                        todo.append(m)
            else:
                todo.extend(m for m, _l in n.succs)
        return out

    def live_functions(self):
        """Functions reachable from the program's entry points: compiling and
        running a job, the job controller, the web tier, discovery, the
        snapshot generators, the configuration functions, and every method of
        the device wrapper classes. What is not in here is dead code."""
        if 'live' in self._memo:
            return self._memo['live']
        roots = []
        for f in self.repo.all_functions():
            m = f.module.name
            if m.startswith('bardolph.fakes'):
                continue
            public = not f.name.startswith('_') or f.name == '__init__'
            if f.name in ('configure', 'main') and f.cls is None:
                roots.append(f)
            elif f.cls is not None and public and (
                    m.startswith(('web.', 'bardolph.controller.script_job',
                                  'bardolph.lib.job_control',
                                  'bardolph.controller.light_set',
                                  'bardolph.controller.lifx_lan',
                                  'bardolph.controller.snapshot',
                                  'bardolph.lib.clock',
                                  'bardolph.lib.std_out_output'))
                    or f.cls.name in ('Parser', 'Machine', 'Lex', 'TimePattern',
                                      'ColorMatrix', 'SortedList')):
                roots.append(f)
            elif f.cls is None and m.startswith('web.'):
                roots.append(f)
        live = set(self.rs.reachable(roots, kinds=('call', 'property', 'spawn')))
        self._memo['live'] = live
        return live

    @staticmethod
    def emptiness(e, fold=None):
        """(subject text, truth-means-non-empty) when `e` tests whether a
        sized value is empty: len(S) > 0, len(S) >= 1, len(S) != 0, len(S) == 0,
        len(S) < 1, len(S), not len(S), S, not S. None otherwise (a bare name
        is only taken as such a test by callers that know S is sized)."""
        def num(x):
            if isinstance(x, ast.Constant) and isinstance(x.value, (int, float)) \
                    and not isinstance(x.value, bool):
                return x.value
            return fold(x) if fold is not None else None
        if isinstance(e, ast.UnaryOp) and isinstance(e.op, ast.Not):
            r = Analysis.emptiness(e.operand, fold)
            return (r[0], not r[1]) if r else None
        if isinstance(e, ast.Call) and norm(e.func) == 'len' and len(e.args) == 1:
            return norm(e.args[0]), True
        if isinstance(e, ast.Call) and norm(e.func) == 'bool' and len(e.args) == 1:
            return Analysis.emptiness(e.args[0], fold)
        if isinstance(e, ast.Compare) and len(e.ops) == 1:
            l, r, op = e.left, e.comparators[0], e.ops[0]
            flip = {ast.Gt: ast.Lt, ast.Lt: ast.Gt, ast.GtE: ast.LtE,
                    ast.LtE: ast.GtE, ast.Eq: ast.Eq, ast.NotEq: ast.NotEq}
            if not (isinstance(l, ast.Call) and norm(l.func) == 'len'):
                if isinstance(r, ast.Call) and norm(r.func) == 'len' \
                        and type(op) in flip:
                    l, r, op = r, l, flip[type(op)]()
                else:
                    return None
            if len(l.args) != 1:
                return None
            k = num(r)
            s = norm(l.args[0])
            if isinstance(op, ast.Gt) and k == 0 or isinstance(op, ast.GtE) and k == 1 \
                    or isinstance(op, ast.NotEq) and k == 0:
                return s, True
            if isinstance(op, ast.Eq) and k == 0 or isinstance(op, ast.Lt) and k == 1 \
                    or isinstance(op, ast.LtE) and k == 0:
                return s, False
            return None
        if isinstance(e, (ast.Name, ast.Attribute)):
            return norm(e), True
        return None

    @staticmethod
    def canonical_atom(e):
        """(text, polarity): a condition and its negation share the text.
        `x is not None` -> ('x is None', False); `b == a` -> ('a == b', True);
        `k not in d` -> ('k in d', False); anything else -> (norm, True)."""
        if isinstance(e, ast.UnaryOp) and isinstance(e.op, ast.Not):
            t, p = Analysis.canonical_atom(e.operand)
            return t, not p
        if isinstance(e, ast.Compare) and len(e.ops) == 1:
            l, r, op = norm(e.left), norm(e.comparators[0]), e.ops[0]
            if isinstance(op, (ast.Is, ast.IsNot)):
                a, b = (l, r) if r in ('None', 'True', 'False') else (r, l) \
                    if l in ('None', 'True', 'False') else tuple(sorted((l, r)))
                return '%s is %s' % (a, b), isinstance(op, ast.Is)
            if isinstance(op, (ast.Eq, ast.NotEq)):
                a, b = sorted((l, r))
                return '%s == %s' % (a, b), isinstance(op, ast.Eq)
            if isinstance(op, (ast.In, ast.NotIn)):
                return '%s in %s' % (l, r), isinstance(op, ast.In)
        return norm(e), True

    def path_facts(self, func, node):
        """{(canonical atom, truth)} of the conditions that are decided the
        same way on every path that reaches `node` (edge dominance)."""
        cfg = self.cfg(func)
        out = set()
        stores = {}
        for k in cfg.nodes:
            if k.ast is None or k.kind in ('def',):
                continue
            for e in ([k.ast] if k.kind in ('stmt', 'for', 'with') else []):
                tgt = []
                if isinstance(e, ast.Assign):
                    tgt = e.targets
                elif isinstance(e, (ast.AugAssign, ast.AnnAssign)):
                    tgt = [e.target]
                elif isinstance(e, ast.For):
                    tgt = [e.target]
                for t in tgt:
                    for x in ast.walk(t):
                        if isinstance(x, ast.Name):
                            stores.setdefault(x.id, []).append(k)
        for t in cfg.nodes:
            if t.kind != 'cond' or t is node:
                continue
            for lab in (True, False):
                if node.id not in reachable_without_edges(
                        cfg, cfg.entry, {(t.id, lab)}):
                    # stale if a name of the test is re-bound between the
                    # test and the node
                    names = set(x.id for x in ast.walk(t.ast)
                                if isinstance(x, ast.Name))
                    stale = False
                    after_t = None
                    for nm in names:
                        for k in stores.get(nm, ()):
                            # ... on a path that does not pass the test again
                            if after_t is None:
                                after_t = set(x.id for x in cfg.reachable_from(
                                    [m for m, lb in t.succs if lb is lab],
                                    avoid=[t]))
                            if k.id in after_t and k is not node and node.id in set(
                                    x.id for x in cfg.reachable_from(
                                        [m for m, _l in k.succs], avoid=[t])):
                                stale = True
                    if stale:
                        continue
                    text, pol = self.canonical_atom(t.ast)
                    out.add((text, pol == lab))
        return out

    def normalised(self, func, keep=()):
        """View of func with simple private helpers expanded and alias
        locals of self attributes substituted (see sa/inline.py). `keep`:
        names of helpers the asking rule treats as units (not expanded)."""
        from .inline import normalised
        return normalised(self, func, keep)

    def whole_map(self, func, e, depth=0):
        """If expression `e` of func is the element-wise image of ONE iterable
        with nothing filtered out - a comprehension without `if`, a local list
        filled by an unconditional append in a loop that is never left early,
        or a helper returning such a thing over its parameter - return
        (iterable expression, element expression, loop variable text), else
        None."""
        if isinstance(e, (ast.ListComp, ast.GeneratorExp)) and \
                len(e.generators) == 1 and not e.generators[0].ifs:
            g = e.generators[0]
            return g.iter, e.elt, norm(g.target)
        if isinstance(e, ast.Name) and depth < 3:
            inits, appends, others = [], [], []
            for n in walk_own(func.node):
                if isinstance(n, ast.Assign) and any(
                        isinstance(t, ast.Name) and t.id == e.id for t in n.targets):
                    if (isinstance(n.value, ast.List) and not n.value.elts) or (
                            isinstance(n.value, ast.Call)
                            and norm(n.value.func) == 'list' and not n.value.args):
                        inits.append(n)
                    else:
                        others.append(n)
                elif isinstance(n, ast.Call) and isinstance(n.func, ast.Attribute) \
                        and isinstance(n.func.value, ast.Name) \
                        and n.func.value.id == e.id:
                    if n.func.attr == 'append' and len(n.args) == 1:
                        appends.append(n)
                    elif n.func.attr in ('extend', 'insert', 'pop', 'remove',
                                         'clear', 'sort', 'reverse'):
                        others.append(n)
            if len(inits) == 1 and len(appends) == 1 and not others:
                cfg = self.cfg(func)
                an = [n for n in cfg.nodes if any(c is appends[0] for c in n.calls())]
                loops = [n for n in cfg.nodes if n.kind == 'for'
                         and any(x is appends[0] for x in ast.walk(n.ast))]
                if len(an) == 1 and len(loops) == 1:
                    lp = loops[0]
                    body = [m for m, lab in lp.succs if lab is True]
                    skip = cfg.find_path(body, lambda n: n is lp, avoid=an)
                    early = [n for n in cfg.reachable_from(body, avoid=[lp])
                             if n.is_return or (n.kind == 'stmt' and isinstance(
                                 n.ast, (ast.Break,)))]
                    if skip is None and not early:
                        return lp.ast.iter, appends[0].args[0], norm(lp.ast.target)
            if len(inits) == 0 and len(others) == 1 and not appends and \
                    isinstance(others[0], ast.Assign):
                return self.whole_map(func, others[0].value, depth + 1)
            return None
        if isinstance(e, ast.Call) and depth < 3:
            for h in self.callees(func, e):
                rets = [n for n in walk_own(h.node)
                        if isinstance(n, ast.Return) and n.value is not None]
                if not rets:
                    return None
                for r in rets:
                    got = self.whole_map(h, r.value, depth + 1)
                    if got is None or norm(got[0]) not in h.params:
                        return None
                return got
        return None

    def run_rule(self, rule_obj):
        run = RuleRun(rule_obj, self)
        rule_obj.fn(run)
        return run

    def stats(self):
        if 'stats' not in self._memo:
            st = self.rs.stats()
            self._memo['stats'] = dict(
                modules=len(self.repo.modules),
                functions=sum(1 for _ in self.repo.all_functions()),
                classes=sum(1 for _ in self.repo.all_classes()),
                call_sites=st['total'], resolved=st['resolved'],
                external=st['extern'], unresolved=st['unresolved'],
                resolver_rounds=self.rs.rounds)
        return self._memo['stats']

    def explanation(self, prop_id, rules):
        dec, notdec = PROPERTY_TEXT.get(prop_id, ('', ''))
        parts = ['Static analysis (Python ast, per-function CFG, resolved call '
                 'graph, constant folding) of the current /repo working tree; '
                 'nothing is imported or executed. Decided: ' + dec]
        if notdec:
            parts.append('NOT decided (left to other techniques): ' + notdec)
        parts.append('Rules run: ' + '; '.join(
            '%s %s' % (r.id, r.title) for r in rules))
        return ' '.join(parts)

    # ------------------------------------------------------- AST helpers
    def calls_in(self, func):
        """ast.Call nodes of func's own body."""
        return [n for n in walk_own(func.node) if isinstance(n, ast.Call)]

    def callees(self, func, call):
        return self.rs.site_for(func, call).callees

    def callee_names(self, func, call):
        return [c.short for c in self.callees(func, call)]

    def calls_to(self, func, target_shorts, cfg_nodes=False):
        """Calls in func whose resolved callees include one named in
        target_shorts (short names like 'CodeGen.if_end')."""
        out = []
        for c in self.calls_in(func):
            if any(n in target_shorts for n in self.callee_names(func, c)):
                out.append(c)
        return out

    def node_of_call(self, func, call):
        """CFG nodes whose own expressions contain `call` (finally copies
        give several)."""
        out = []
        for n in self.cfg(func).nodes:
            for e in n.exprs():
                for sub in ast.walk(e):
                    if sub is call:
                        out.append(n)
                        break
                else:
                    continue
                break
        return out

    def nodes_calling(self, func, pred):
        """CFG nodes of func containing a call for which pred(call,
        callee_shorts) holds."""
        out = []
        for n in self.cfg(func).nodes:
            for c in n.calls():
                if pred(c, self.callee_names(func, c)):
                    out.append(n)
                    break
        return out

    # -------------------------------------------------- return classes
    def always_fails(self, func):
        """Every return of func is a falsy constant or delegates to a
        function that always fails (error reporters: trigger_error ...)."""
        memo = self._memo.setdefault('always_fails', {})
        if func in memo:
            return memo[func]
        memo[func] = False      # least fixpoint
        rets = self.cfg(func).return_nodes()
        ok = bool(rets)
        for r in rets:
            c = self.ret_class(func, r)
            if c[0] != 'fail':
                ok = False
        if any(n.kind == 'implicit-return' for n in rets):
            ok = False
        memo[func] = ok
        return ok

    def ret_class(self, func, rnode):
        """('fail'|'ok'|'either', how) for a return node of func.
        fail: falsy constant / bare / synthetic falsy / call to an
        always-failing reporter."""
        if rnode.kind == 'implicit-return':
            return ('fail', 'falls off the end (None)')
        if rnode.ret_truth is True:
            return ('ok', 'truthy value of %s' % norm(rnode.ret_expr))
        if rnode.ret_truth is False:
            return ('fail', 'propagates falsy %s' % norm(rnode.ret_expr))
        v = rnode.ret_expr
        if v is None:
            return ('fail', 'bare return (None)')
        if isinstance(v, ast.Constant):
            return ('ok', 'constant') if v.value else ('fail', 'constant')
        if isinstance(v, ast.Call):
            callees = self.callees(func, v)
            if callees and all(self.always_fails(c) for c in callees):
                return ('fail', 'reporter %s' % callees[0].short)
            return ('either', 'call')
        return ('either', 'expression')

    # --------------------------------------------------------- emission
    def forwarders(self):
        """Functions that append one instruction built from their own first
        parameters: CodeGen.add_instruction and anything that passes its
        op-code parameter straight to it (Parser._add_instruction)."""
        if 'forwarders' in self._memo:
            return self._memo['forwarders']
        base = self.func('bardolph.parser.code_gen', 'CodeGen.add_instruction')
        fw = {base: 0}
        changed = True
        while changed:
            changed = False
            for f in self.repo.all_functions('bardolph.parser'):
                if f in fw:
                    continue
                params = f.params[1:] if f.cls is not None and not f.is_static \
                    else f.params
                if not params:
                    continue
                for c in self.calls_in(f):
                    if any(t in fw for t in self.callees(f, c)) and c.args \
                            and isinstance(c.args[0], ast.Name) \
                            and c.args[0].id == params[0]:
                        fw[f] = 0
                        changed = True
        self._memo['forwarders'] = fw
        return fw

    def emission_sites(self, func):
        """Direct emission sites in func: [(call, [(opcode member, [arg
        exprs])...])]. Covers add_instruction-like forwarders, add_list with
        tuple / bare op-code arguments, CodeGen.push / pop."""
        memo = self._memo.setdefault('emission_sites', {})
        if func in memo:
            return memo[func]
        fw = self.forwarders()
        add_list = self.func('bardolph.parser.code_gen', 'CodeGen.add_list')
        out = []
        for c in self.calls_in(func):
            callees = self.callees(func, c)
            ops = []
            if any(t in fw for t in callees) and c.args:
                v = self.try_fold(c.args[0], func)
                if isinstance(v, K.EnumVal) and v.enum == 'OpCode':
                    ops.append((v.member, list(c.args[1:])))
                elif isinstance(c.args[0], ast.Attribute) and \
                        norm(c.args[0]) == 'self._op_code':
                    ops.append(('<self._op_code>', list(c.args[1:])))
                elif isinstance(c.args[0], ast.Call):
                    # add_instruction(self._push_op(x), x)
                    ops.append(('<computed:%s>' % norm(c.args[0]),
                                list(c.args[1:])))
            elif add_list in callees:
                for a in c.args:
                    if isinstance(a, ast.Tuple) and a.elts:
                        v = self.try_fold(a.elts[0], func)
                        if isinstance(v, K.EnumVal) and v.enum == 'OpCode':
                            ops.append((v.member, list(a.elts[1:])))
                        else:
                            ops.append(('<computed:%s>' % norm(a.elts[0]),
                                        list(a.elts[1:])))
                    else:
                        v = self.try_fold(a, func)
                        if isinstance(v, K.EnumVal) and v.enum == 'OpCode':
                            ops.append((v.member, []))
            if ops:
                out.append((c, ops))
        memo[func] = out
        return out

    def may_emit(self, func):
        """Op-code members func may emit, directly or through callees."""
        memo = self._memo.setdefault('may_emit', {})
        if func in memo:
            return memo[func]
        seen = self.rs.reachable([func])
        out = set()
        for f in seen:
            if not f.module.name.startswith('bardolph.parser'):
                continue
            for _c, ops in self.emission_sites(f):
                for op, _a in ops:
                    out.add(op)
        memo[func] = out
        return out

    # ----------------------------------------------------------- tables
    def tables_in(self, func):
        """Folded dict values a function uses: inline dict displays /
        comprehensions and names or attributes (module constant, class
        attribute, self.<class attribute>) that fold to a dict.
        -> [(dict value, ast node)]"""
        out = []
        seen = set()
        for n in walk_own(func.node):
            cand = None
            if isinstance(n, (ast.Dict, ast.DictComp)):
                cand = n
            elif isinstance(n, (ast.Name, ast.Attribute)) and \
                    isinstance(getattr(n, 'ctx', None), ast.Load):
                cand = n
            if cand is None:
                continue
            key = norm(cand)
            if key in seen:
                continue
            try:
                v = self.fold(cand, func)
            except K.Unfoldable:
                continue
            if isinstance(v, dict) and v:
                seen.add(key)
                out.append((v, cand))
        return out

    # ------------------------------------------------------ path helpers
    def emit_nodes(self, func, opname):
        """CFG nodes of func that directly emit op-code `opname`."""
        out = []
        for call, ops in self.emission_sites(func):
            if any(op == opname for op, _ in ops):
                for n in self.node_of_call(func, call):
                    if n not in out:
                        out.append(n)
        return out

    def success_return(self, func):
        def pred(n):
            return n.is_return and self.ret_class(func, n)[0] != 'fail'
        return pred

    def path_skipping(self, func, starts, avoid, goal=None, after=True):
        """A CFG path from (the successors of) `starts` to a successful
        return (or `goal` nodes) that avoids `avoid`; None when every such
        path passes through `avoid`."""
        cfg = self.cfg(func)
        if after:
            st = []
            for s in starts:
                st += [m for m, _l in s.succs]
        else:
            st = list(starts)
        if goal is None:
            pred = self.success_return(func)
        else:
            gs = set(id(g) for g in goal)
            pred = lambda n: id(n) in gs
        return cfg.find_path(st, pred, avoid=avoid)

    def calls_nodes(self, func, *shorts):
        """CFG nodes of func containing a call resolved to one of shorts."""
        return self.nodes_calling(
            func, lambda c, names: any(x in shorts for x in names))

    # ------------------------------------------ current-token-type domain
    def token_type_hooks(self, func, advancing):
        """(on_node, on_edge) hooks for cfg.find_path_sensitive that track the
        set of TokenTypes members the current token may have: narrowed by
        is_a / is_any tests, forgotten when a node in `advancing` (calls that
        consume a token) is passed. An empty set makes the edge infeasible."""
        adv = set(id(n) for n in advancing)
        TOK = '<toktypes>'

        def types_tested(expr):
            if isinstance(expr, ast.Call) and isinstance(expr.func, ast.Attribute) \
                    and expr.func.attr in ('is_a', 'is_any') \
                    and 'current_token' in norm(expr.func.value):
                vals = [self.try_fold(a, func) for a in expr.args]
                if vals and all(isinstance(v, K.EnumVal) for v in vals):
                    return frozenset(v.member for v in vals)
            return None

        def get(facts):
            for a, t, _n in facts:
                if a == TOK:
                    return t
            return None

        def put(facts, value):
            out = set(f for f in facts if f[0] != TOK)
            if value is not None:
                out.add((TOK, value, frozenset()))
            return frozenset(out)

        def on_node(n, facts):
            if id(n) in adv:
                return put(facts, None)
            return facts

        def on_edge(n, lab, facts):
            if n.kind != 'cond' or lab not in (True, False):
                return facts
            tested = types_tested(n.ast)
            if tested is None:
                return facts
            cur = get(facts)
            if lab is True:
                if cur is None:
                    new = ('in', tested)
                elif cur[0] == 'in':
                    new = ('in', cur[1] & tested)
                else:
                    new = ('in', tested - cur[1])
                if not new[1]:
                    return None
                return put(facts, new)
            # False edge
            if cur is None:
                return put(facts, ('not', tested))
            if cur[0] == 'not':
                return put(facts, ('not', cur[1] | tested))
            rest = cur[1] - tested
            if not rest:
                return None
            return put(facts, ('in', rest))
        return on_node, on_edge

    # ------------------------------------------------------- must-call
    def must_reach_call(self, func, target_pred, verdict_funcs=()):
        """Greatest-fixpoint interprocedural MUST: on every CFG path from
        entry to a return of f there is a call satisfying target_pred(callee)
        directly or to a function for which this holds. For functions in
        `verdict_funcs` (routines returning a success verdict) only the
        returns that can be truthy count. Returns {func: bool} for every
        function reachable from `func`."""
        verdict = set(verdict_funcs)
        funcs = self.rs.reachable([func])
        must = {f: True for f in funcs}
        changed = True
        while changed:
            changed = False
            for f in funcs:
                if not must[f]:
                    continue
                if not self._must_once(f, target_pred, must, f in verdict):
                    must[f] = False
                    changed = True
        return must

    def _must_once(self, f, target_pred, must, success_only):
        cfg = self.cfg(f)
        hit = []
        for n in cfg.nodes:
            for c in n.calls():
                callees = self.callees(f, c)
                if callees and all(target_pred(t) or must.get(t, False)
                                   for t in callees):
                    hit.append(n)
                    break

        def goal(n):
            if not n.is_return:
                return False
            if success_only and self.ret_class(f, n)[0] == 'fail':
                return False
            return True
        p = cfg.find_path([cfg.entry], goal, avoid=hit)
        return p is None


def self_attr(node, name=None):
    """node is `self.<attr>`; returns attr or None."""
    if isinstance(node, ast.Attribute) and isinstance(node.value, ast.Name) \
            and node.value.id == 'self' and (name is None or node.attr == name):
        return node.attr
    return None


def path_text(path):
    return [('%s' % n.text()) for n in path]
