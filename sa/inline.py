"""Opt-in normalisation of one function before a shape rule looks at it.

`normalised(A, f)` returns a FuncInfo for a copy of f in which

  * calls to *simple private helpers* are expanded in place (the result of an
    extract-method refactoring is seen as the code it was extracted from):
      - a procedure call statement `self._h(a, b)` where _h has no `return
        <value>` and no early return: its body, parameters substituted;
      - `self._h(a, b)` used as an expression where _h's body is a single
        `return <expr>`: that expression, parameters substituted;
    a helper qualifies when it is a method of the same class (or a function
    of the same module) whose name starts with `_`, is not decorated (bar
    staticmethod), is not recursive, and takes only plain positional
    parameters;
  * a local that merely abbreviates an attribute path of self
    (`reg = self._reg`, bound once, the attribute never stored in f) is
    replaced by that path.

Only the *view* of f changes; the helper itself stays in the index and is
analysed as a function in its own right wherever a rule asks for it. Rules
whose instances are helper calls (converters, guards) must not ask for the
normalised view of their callers - it is meant for rules about the statement
shape of one routine.
"""
import ast
import copy

from .index import FuncInfo, norm

MAX_DEPTH = 3


class _Subst(ast.NodeTransformer):
    def __init__(self, mapping):
        self.mapping = mapping

    def visit_Name(self, node):
        if node.id in self.mapping and isinstance(node.ctx, ast.Load):
            return copy.deepcopy(self.mapping[node.id])
        if node.id in self.mapping and isinstance(node.ctx, ast.Store) \
                and isinstance(self.mapping[node.id], ast.Name):
            return ast.copy_location(
                ast.Name(self.mapping[node.id].id, ast.Store()), node)
        return node


def _simple_arg(e):
    if isinstance(e, (ast.Name, ast.Constant)):
        return True
    if isinstance(e, ast.Attribute):
        return _simple_arg(e.value)
    return False


def _own_nodes(fn_node):
    """nodes of a function body, nested defs excluded"""
    todo = list(fn_node.body)
    while todo:
        n = todo.pop()
        yield n
        for c in ast.iter_child_nodes(n):
            if not isinstance(c, (ast.FunctionDef, ast.AsyncFunctionDef,
                                  ast.ClassDef, ast.Lambda)):
                todo.append(c)


def _helper_kind(h):
    """'proc' | 'expr' | None"""
    node = h.node
    if not h.name.startswith('_') or h.name.startswith('__'):
        return None
    if any(d not in ('staticmethod',) for d in h.decorators):
        return None
    a = node.args
    if a.vararg or a.kwarg or a.kwonlyargs or a.defaults or a.posonlyargs:
        return None
    body = [s for s in node.body if not (isinstance(s, ast.Expr)
                                         and isinstance(s.value, ast.Constant))]
    if len(body) == 1 and isinstance(body[0], ast.Return) \
            and body[0].value is not None:
        return 'expr'
    rets = [n for n in _own_nodes(node) if isinstance(n, ast.Return)]
    if any(r.value is not None for r in rets):
        return 'guard' if _is_guard_helper(body) else None
    if rets and not (len(rets) == 1 and body and body[-1] is rets[0]):
        return None
    if any(isinstance(n, (ast.Yield, ast.YieldFrom, ast.Global, ast.Nonlocal))
           for n in _own_nodes(node)):
        return None
    return 'proc'


def _failing_expr(e):
    """a falsy constant, or a call of an error reporter on self (the
    reporters of this code base all answer False)"""
    if e is None:
        return True
    if isinstance(e, ast.Constant):
        return not e.value
    return isinstance(e, ast.Call) and isinstance(e.func, ast.Attribute) \
        and isinstance(e.func.value, ast.Name) and e.func.value.id == 'self' \
        and 'error' in e.func.attr


def _is_guard_helper(body):
    """straight-line statements; `if c: return <failing>` guards; a final
    `return True`: the helper of `if not self._h(..): return False`"""
    if not body or not (isinstance(body[-1], ast.Return)
                        and isinstance(body[-1].value, ast.Constant)
                        and body[-1].value.value is True):
        return False
    for st in body[:-1]:
        inner = [n for n in ast.walk(st) if isinstance(n, ast.Return)]
        if not inner:
            if any(isinstance(n, (ast.FunctionDef, ast.Lambda, ast.Yield,
                                  ast.YieldFrom)) for n in ast.walk(st)):
                return False
            continue
        if not (isinstance(st, ast.If) and not st.orelse and len(st.body) == 1
                and isinstance(st.body[0], ast.Return) and len(inner) == 1
                and _failing_expr(st.body[0].value)):
            return False
    return True


class _Inliner(ast.NodeTransformer):
    def __init__(self, A, f, view, depth, seen, keep=()):
        self.A, self.f, self.view, self.depth, self.seen = A, f, view, depth, seen
        self.keep = keep
        self.counter = 0
        self.changed = False
        self.expanded = set()

    # ---- resolution on the ORIGINAL function (call nodes of the copy carry
    # a back pointer)
    def _helper(self, call):
        orig = getattr(call, '_orig', None)
        if orig is None:
            return None
        callees = self.A.callees(self.f, orig)
        if len(callees) != 1:
            return None
        h = callees[0]
        if h is self.f or h in self.seen or h.module is not self.f.module:
            return None
        if h.short in self.keep or h.name in self.keep:
            return None            # an anchor of the asking rule
        if h.cls is not None and (self.f.cls is None
                                  or h.cls not in self.f.cls.mro()):
            return None
        kind = _helper_kind(h)
        if kind is None:
            return None
        if any(isinstance(a, ast.Starred) for a in call.args) or call.keywords:
            return None
        params = [p for p in h.params]
        if h.cls is not None and 'staticmethod' not in h.decorators:
            if not (isinstance(call.func, ast.Attribute)
                    and isinstance(call.func.value, ast.Name)
                    and call.func.value.id == 'self'):
                return None
            params = params[1:]
        if len(params) != len(call.args):
            return None
        return h, kind, params

    def _bind(self, h, params, args):
        self.counter += 1
        tag = '__%s_%d_' % (h.name.strip('_'), self.counter)
        mapping, pre = {}, []
        stored = set(x.id for x in ast.walk(h.node) if isinstance(x, ast.Name)
                     and isinstance(x.ctx, ast.Store))
        for p, a in zip(params, args):
            if _simple_arg(a) and p not in stored:
                mapping[p] = a
            else:
                tmp = ast.Name(tag + p, ast.Load())
                pre.append(ast.Assign([ast.Name(tag + p, ast.Store())], a))
                mapping[p] = tmp
        for name in stored:
            if name not in params:
                mapping[name] = ast.Name(tag + name, ast.Load())
        return mapping, pre

    def visit_Expr(self, node):
        if isinstance(node.value, ast.Call):
            got = self._helper(node.value)
            if got and got[1] == 'proc':
                h, _k, params = got
                mapping, pre = self._bind(h, params, node.value.args)
                body = [copy.deepcopy(s) for s in h.node.body
                        if not (isinstance(s, ast.Expr)
                                and isinstance(s.value, ast.Constant))]
                if body and isinstance(body[-1], ast.Return):
                    body = body[:-1]
                body = [_Subst(mapping).visit(s) for s in body] or [ast.Pass()]
                sub = normalised_body(self.A, h, body, self.depth + 1,
                                      self.seen | {h}, self.expanded, self.keep)
                self.changed = True
                self.expanded.add(h)
                out = pre + sub
                for s in out:
                    ast.copy_location(s, node)
                    ast.fix_missing_locations(s)
                return out
        return self.generic_visit(node)

    def visit_If(self, node):
        # if not self._h(args): return <failing>   with h a guard helper
        t = node.test
        if isinstance(t, ast.UnaryOp) and isinstance(t.op, ast.Not) \
                and isinstance(t.operand, ast.Call) and not node.orelse \
                and len(node.body) == 1 and isinstance(node.body[0], ast.Return) \
                and _failing_expr(node.body[0].value):
            got = self._helper(t.operand)
            if got and got[1] == 'guard':
                h, _k, params = got
                mapping, pre = self._bind(h, params, t.operand.args)
                body = [copy.deepcopy(s) for s in h.node.body
                        if not (isinstance(s, ast.Expr)
                                and isinstance(s.value, ast.Constant))][:-1]
                body = [_Subst(mapping).visit(s) for s in body] or [ast.Pass()]
                orig = ast.Module(body=[s for s in h.node.body if not (
                    isinstance(s, ast.Expr) and isinstance(s.value, ast.Constant))][:-1],
                    type_ignores=[])
                wrapper = ast.Module(body=body, type_ignores=[])
                if len(orig.body) == len(wrapper.body):
                    _tag_calls(orig, wrapper)
                inl = _Inliner(self.A, h, None, self.depth + 1,
                               self.seen | {h}, self.keep)
                out = []
                if self.depth + 1 < MAX_DEPTH:
                    for s in wrapper.body:
                        r = inl.visit(s)
                        out += r if isinstance(r, list) else [r]
                    self.expanded |= inl.expanded
                else:
                    out = wrapper.body
                self.changed = True
                self.expanded.add(h)
                out = pre + out
                for s in out:
                    ast.copy_location(s, node)
                    ast.fix_missing_locations(s)
                return out
        return self.generic_visit(node)

    def visit_Call(self, node):
        self.generic_visit(node)
        got = self._helper(node)
        if got and got[1] == 'expr':
            h, _k, params = got
            if all(_simple_arg(a) for a in node.args):
                mapping, _pre = self._bind(h, params, node.args)
                body = [s for s in h.node.body
                        if not (isinstance(s, ast.Expr)
                                and isinstance(s.value, ast.Constant))]
                e = _Subst(mapping).visit(copy.deepcopy(body[0].value))
                self.changed = True
                self.expanded.add(h)
                return ast.copy_location(e, node)
        return node


def _tag_calls(orig_node, copy_node):
    """give every Call in the copy a pointer to its original node"""
    for a, b in zip(ast.walk(orig_node), ast.walk(copy_node)):
        if isinstance(a, ast.Call) and isinstance(b, ast.Call):
            b._orig = a


def normalised_body(A, h, body, depth, seen, expanded=None, keep=()):
    """helper bodies are expanded recursively (bounded)"""
    if depth >= MAX_DEPTH:
        return body
    # the statements came from h: resolve their calls in h
    wrapper = ast.Module(body=body, type_ignores=[])
    orig = ast.Module(body=[s for s in h.node.body
                            if not (isinstance(s, ast.Expr)
                                    and isinstance(s.value, ast.Constant))],
                      type_ignores=[])
    if len(orig.body) and isinstance(orig.body[-1], ast.Return) \
            and len(orig.body) == len(body) + 1:
        orig = ast.Module(body=orig.body[:-1], type_ignores=[])
    if len(orig.body) == len(body):
        _tag_calls(orig, wrapper)
    inl = _Inliner(A, h, None, depth, seen, keep)
    out = []
    for s in wrapper.body:
        r = inl.visit(s)
        out += r if isinstance(r, list) else [r]
    if expanded is not None:
        expanded |= inl.expanded
    return out


def _init_only_attrs(cls):
    """attributes of self that are data attributes bound by constructors only
    (never re-bound by another method, not properties): `x = self.attr` is
    then a mere abbreviation for the life of the object."""
    if cls is None:
        return set()
    cache = getattr(cls, '_init_only', None)
    if cache is not None:
        return cache
    in_init, elsewhere, props = set(), set(), set()
    for c in cls.mro() + list(cls.all_subclasses()):
        for m in c.methods.values():
            if m.is_property:
                props.add(m.name)
            for n in ast.walk(getattr(m, 'original_node', m.node)):
                if isinstance(n, ast.Attribute) and isinstance(n.ctx, (ast.Store, ast.Del)) \
                        and isinstance(n.value, ast.Name) and n.value.id == 'self':
                    (in_init if m.name == '__init__' else elsewhere).add(n.attr)
    cls._init_only = in_init - elsewhere - props
    return cls._init_only


def _alias_locals(node, cls=None):
    """{name: binding} for `x = self.attr` bound exactly once, never
    re-bound, where attr is a constructor-only data attribute of the class."""
    binds, stores_attr, stores_name = {}, set(), {}
    fn_binds = {}
    ok_attrs = _init_only_attrs(cls)
    for n in _own_nodes(node):
        if isinstance(n, ast.Assign) and len(n.targets) == 1 \
                and isinstance(n.targets[0], ast.Name) \
                and isinstance(n.value, ast.Attribute) \
                and isinstance(n.value.value, ast.Name) \
                and n.value.value.id == 'self' and n.value.attr in ok_attrs:
            binds.setdefault(n.targets[0].id, []).append(n)
        # x = Cls.method / x = module.func: a function reference abbreviated
        # (the local is only ever called)
        elif isinstance(n, ast.Assign) and len(n.targets) == 1 \
                and isinstance(n.targets[0], ast.Name) \
                and isinstance(n.value, ast.Attribute) \
                and isinstance(n.value.value, ast.Name) \
                and n.value.value.id != 'self':
            fn_binds.setdefault(n.targets[0].id, []).append(n)
        if isinstance(n, ast.Attribute) and isinstance(n.ctx, (ast.Store, ast.Del)):
            stores_attr.add(norm(n))
        if isinstance(n, ast.Name) and isinstance(n.ctx, (ast.Store, ast.Del)):
            stores_name[n.id] = stores_name.get(n.id, 0) + 1
    args = set(a.arg for a in node.args.args)
    out = {}
    for name, ns in binds.items():
        if len(ns) == 1 and stores_name.get(name, 0) == 1 and name not in args \
                and norm(ns[0].value) not in stores_attr:
            out[name] = ns[0]
    for name, ns in fn_binds.items():
        if len(ns) != 1 or stores_name.get(name, 0) != 1 or name in args \
                or name in binds:
            continue
        head = ns[0].value.value.id
        if head in args or head in stores_name:
            continue                    # the head is a local object
        loads = [n for n in _own_nodes(node)
                 if isinstance(n, ast.Name) and n.id == name
                 and isinstance(n.ctx, ast.Load)]
        called = set(id(n.func) for n in _own_nodes(node)
                     if isinstance(n, ast.Call))
        if loads and all(id(n) in called for n in loads):
            out[name] = ns[0]
    return out


class _DropAssigns(ast.NodeTransformer):
    def __init__(self, drops):
        self.drops = drops

    def visit_Assign(self, node):
        if any(node is d or getattr(node, '_orig_stmt', None) is d
               for d in self.drops):
            return ast.copy_location(ast.Pass(), node)
        return node


class _FStringToFormat(ast.NodeTransformer):
    """f'{a} {b:.0f} ' -> '{} {:.0f} '.format(a, b): one notation for the
    rules that read templates"""

    def __init__(self):
        self.changed = False

    def visit_JoinedStr(self, node):
        for v in node.values:           # not into the format specs
            if isinstance(v, ast.FormattedValue):
                v.value = self.visit(v.value)
        text, args = '', []
        for v in node.values:
            if isinstance(v, ast.Constant) and isinstance(v.value, str):
                text += v.value.replace('{', '{{').replace('}', '}}')
            elif isinstance(v, ast.FormattedValue):
                spec = ''
                if v.format_spec is not None:
                    if not all(isinstance(x, ast.Constant)
                               for x in v.format_spec.values):
                        return node         # nested fields: leave it
                    spec = ''.join(x.value for x in v.format_spec.values)
                conv = {-1: '', 115: '!s', 114: '!r', 97: '!a'}.get(v.conversion, '')
                text += '{' + conv + ((':' + spec) if spec else '') + '}'
                args.append(v.value)
            else:
                return node
        self.changed = True
        return ast.copy_location(ast.Call(
            ast.Attribute(ast.Constant(text), 'format', ast.Load()), args, []),
            node)


def normalised(A, f, keep=()):
    keep = tuple(sorted(keep))
    memo = A._memo.setdefault(('normalised', keep), {})
    if f in memo:
        return memo[f]
    new = copy.deepcopy(f.node)
    _tag_calls(f.node, new)
    # 0. one notation for formatted strings
    fs = _FStringToFormat()
    new = fs.visit(new)
    # 1. helper expansion
    inl = _Inliner(A, f, None, 0, {f}, keep)
    new.body = _flatten([inl.visit(s) for s in new.body])
    changed = inl.changed or fs.changed
    # 2. alias locals
    aliases = _alias_locals(new, f.cls)
    if aliases:
        mapping = {k: v.value for k, v in aliases.items()}
        drops = list(aliases.values())
        new = _DropAssigns(drops).visit(new)
        new = _Subst(mapping).visit(new)
        changed = True
    if not changed:
        memo[f] = f
        if not hasattr(f, 'expanded'):
            f.expanded = set()
        return f
    ast.fix_missing_locations(new)
    g = FuncInfo(f.module, f.cls, new, f.outer)
    g.normalised_from = f
    g.expanded = set(inl.expanded)
    memo[f] = g
    return g


def absorbed_helpers(A, funcs, keep=()):
    """Helpers that only exist as expanded parts of the normalised views of
    `funcs`: every caller is one of funcs and expanded them."""
    views = {f: normalised(A, f, keep) for f in funcs}
    out = set()
    for f, g in views.items():
        for h in getattr(g, 'expanded', ()):
            callers = set(s.func for s in A.rs.callers(h))
            if callers and all(c in views and h in getattr(views[c], 'expanded', ())
                               for c in callers):
                out.add(h)
    return out


def _flatten(items):
    out = []
    for it in items:
        if isinstance(it, list):
            out += it
        elif it is not None:
            out.append(it)
    return out
