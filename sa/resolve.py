"""Receiver-type inference, callee resolution and the call graph.

Type facts come only from the source: constructor assignments
(`self._context = Context()`), constructor-argument types at syntactic
construction sites (`MatrixParser(self)` inside `Parser`), property bodies,
`provide(I)` / `@inject(I)` with the bindings found at `bind(X).to(I)` /
`bind_instance(X()).to(I)` sites, return expressions of resolved callees.
"""
import ast

from .index import (AnalysisError, ClassInfo, FuncInfo, ModuleInfo, norm,
                    store_targets)


class CallSite:
    __slots__ = ('func', 'node', 'callees', 'kind', 'recv_text', 'attr')

    def __init__(self, func, node, callees, kind, recv_text='', attr=''):
        self.func = func            # enclosing FuncInfo
        self.node = node            # ast.Call (or ast.Attribute for property)
        self.callees = callees      # list[FuncInfo]
        self.kind = kind            # 'call' | 'property' | 'spawn' | 'extern' | 'unresolved' | 'ctor-noinit'
        self.recv_text = recv_text
        self.attr = attr


class Resolver:
    def __init__(self, repo):
        self.repo = repo
        self._attr_types = {}
        self._in_progress = set()
        self._ret_types = {}
        self._ctor_param_types = None
        self._impls = None
        self._sites = {}        # FuncInfo -> [CallSite]
        self._callers = None
        self._local_types = {}
        self._param_args = {}   # (id(func), param) -> [(arg expr, caller FuncInfo)]
        self.rounds = 0
        self._fixpoint()

    def _clear_caches(self):
        self._attr_types = {}
        self._ret_types = {}
        self._sites = {}
        self._callers = None
        self._local_types = {}
        self._in_progress = set()

    def _fixpoint(self):
        prev_sig = None
        for _ in range(6):
            self.rounds += 1
            new = {}
            for f in self.repo.all_functions():
                for s in self.sites(f):
                    if s.kind not in ('call',) or not isinstance(s.node, ast.Call):
                        continue
                    for callee in s.callees:
                        self._map_args(s, callee, new)
            sig = sorted((k[1], getattr(k[2], 'short', ''), len(v))
                         for k, v in new.items())
            self._param_args = {(k[0], k[1]): v for k, v in new.items()}
            if sig == prev_sig:
                break
            prev_sig = sig
            self._clear_caches()

    def _map_args(self, site, callee, out):
        call = site.node
        params = list(callee.params)
        bound = False
        if callee.cls is not None and not callee.is_static:
            # bound call (obj.m(...), Cls(...)) supplies self implicitly;
            # Cls.m(self, ...) does not
            st = self.repo.resolve_expr_static(site.func.module, call.func)
            explicit = isinstance(st, FuncInfo) and isinstance(call.func, ast.Attribute) \
                and isinstance(self.repo.resolve_expr_static(
                    site.func.module, call.func.value), ClassInfo)
            if not explicit:
                bound = True
        if bound and params:
            params = params[1:]
        for i, a in enumerate(call.args):
            if isinstance(a, ast.Starred):
                break
            if i < len(params):
                out.setdefault((id(callee), params[i], callee), []).append(
                    (a, site.func))
        for kw in call.keywords:
            if kw.arg and kw.arg in callee.params:
                out.setdefault((id(callee), kw.arg, callee), []).append(
                    (kw.value, site.func))

    def param_args(self, func, name):
        return self._param_args.get((id(func), name), [])

    # ------------------------------------------------------------- hints
    # Facts the source does not state in a form the inference can read
    # (element types of containers). Each names existing classes; a vanished
    # class or member is an analysis error, never a silent miss.
    ATTR_HINTS = {
        # (module, class, attr): [(module, class)], reason
        ('bardolph.lib.job_control', 'JobControl', '_active_agent'):
            ([('bardolph.lib.job_control', 'Agent')],
             'popleft() of the deque that _enqueue_job fills with Agent(...)'),
    }
    RETURN_HINTS = {
        ('bardolph.controller.light_set', 'LightSet.get_light'):
            ([('bardolph.controller.i_controller', 'Light')],
             'docstring: instance of i_controller.Light or None; dict filled '
             'from LightApi.get_lights()'),
    }

    def hint_attr(self, cls, attr):
        for (m, c, a), (targets, _why) in self.ATTR_HINTS.items():
            if a == attr and cls.name == c and cls.module.name == m:
                out = set()
                for tm, tc in targets:
                    k = self.repo.cls(tm, tc)
                    out.add(k)
                    out |= set(k.all_subclasses())
                return out
        return set()

    def hint_return(self, func):
        for (m, name), (targets, _why) in self.RETURN_HINTS.items():
            if func.module.name == m and func.cls is not None and \
                    func.cls.name + '.' + func.name == name:
                out = set()
                for tm, tc in targets:
                    k = self.repo.cls(tm, tc)
                    out.add(k)
                    out |= set(k.all_subclasses())
                return out
        return set()

    # ---------------------------------------------------------- bindings
    def impls(self, iface):
        """Implementation classes bound to interface class `iface`."""
        if self._impls is None:
            self._collect_bindings()
        out = list(self._impls.get(id(iface), []))
        for c in iface.all_subclasses():
            if c not in out:
                out.append(c)
        if not out:
            out = [iface]
        return out

    def bindings(self):
        """list of (iface ClassInfo, impl ClassInfo, 'bind'|'bind_instance',
        FuncInfo of the binding site)."""
        if self._impls is None:
            self._collect_bindings()
        return self._bindings

    def _collect_bindings(self):
        self._impls = {}
        self._bindings = []
        for f in self.repo.all_functions():
            for node in ast.walk(f.node):
                if not (isinstance(node, ast.Call)
                        and isinstance(node.func, ast.Attribute)
                        and node.func.attr == 'to'
                        and isinstance(node.func.value, ast.Call)
                        and node.args):
                    continue
                inner = node.func.value
                fn = norm(inner.func)
                if fn.split('.')[-1] not in ('bind', 'bind_instance'):
                    continue
                kind = fn.split('.')[-1]
                iface = self.repo.resolve_expr_static(f.module, node.args[0])
                if not isinstance(iface, ClassInfo) or not inner.args:
                    continue
                arg = inner.args[0]
                impl_classes = []
                if kind == 'bind':
                    r = self.repo.resolve_expr_static(f.module, arg)
                    if isinstance(r, ClassInfo):
                        impl_classes = [r]
                else:
                    impl_classes = list(self.expr_types(arg, f))
                for impl in impl_classes:
                    self._impls.setdefault(id(iface), [])
                    if impl not in self._impls[id(iface)]:
                        self._impls[id(iface)].append(impl)
                    self._bindings.append((iface, impl, kind, f, node))

    # ------------------------------------------------- ctor param types
    def ctor_param_types(self, cls, param):
        if self._ctor_param_types is None:
            self._ctor_param_types = {}
            for f in self.repo.all_functions():
                for node in ast.walk(f.node):
                    if not isinstance(node, ast.Call):
                        continue
                    target = self.repo.resolve_expr_static(f.module, node.func)
                    if not isinstance(target, ClassInfo):
                        continue
                    init = target.lookup('__init__')
                    if init is None:
                        continue
                    params = init.params[1:]
                    for i, a in enumerate(node.args):
                        if i < len(params):
                            self._ctor_param_types.setdefault(
                                (id(init), params[i]), []).append((a, f))
                    for kw in node.keywords:
                        if kw.arg:
                            self._ctor_param_types.setdefault(
                                (id(init), kw.arg), []).append((kw.value, f))
        init = cls.lookup('__init__')
        if init is None:
            return set()
        key = ('ctor', id(init), param)
        if key in self._in_progress:
            return set()
        self._in_progress.add(key)
        try:
            out = set()
            for a, f in self._ctor_param_types.get((id(init), param), []):
                out |= self.expr_types(a, f)
            return out
        finally:
            self._in_progress.discard(key)

    # ------------------------------------------------------- attributes
    def attr_types(self, cls, attr):
        key = (id(cls), attr)
        if key in self._attr_types:
            return self._attr_types[key]
        if key in self._in_progress:
            return set()
        self._in_progress.add(key)
        out = set()
        try:
            classes = cls.mro() + cls.all_subclasses()
            for c in classes:
                for m in c.methods.values():
                    for node in ast.walk(m.node):
                        if not isinstance(node, (ast.Assign, ast.AnnAssign)):
                            continue
                        targets = (node.targets if isinstance(node, ast.Assign)
                                   else [node.target])
                        for t in targets:
                            if (isinstance(t, ast.Attribute)
                                    and isinstance(t.value, ast.Name)
                                    and t.value.id == 'self'
                                    and t.attr == attr
                                    and node.value is not None):
                                out |= self.expr_types(node.value, m)
                if attr in c.class_attrs:
                    out |= self.expr_types(
                        c.class_attrs[attr], _ClassCtx(c))
                if attr in c.methods and c.methods[attr].is_property:
                    out |= self.return_types(c.methods[attr])
        finally:
            self._in_progress.discard(key)
        self._attr_types[key] = out
        return out

    def return_types(self, func):
        key = id(func)
        if key in self._ret_types:
            return self._ret_types[key]
        if ('ret', key) in self._in_progress:
            return set()
        self._in_progress.add(('ret', key))
        out = set()
        try:
            for node in _walk_own(func.node):
                if isinstance(node, ast.Return) and node.value is not None:
                    out |= self.expr_types(node.value, func)
        finally:
            self._in_progress.discard(('ret', key))
        self._ret_types[key] = out
        return out

    # ----------------------------------------------------------- locals
    def local_types(self, func, name):
        key = (id(func), name)
        if key in self._local_types:
            return self._local_types[key]
        if ('loc', key) in self._in_progress:
            return set()
        self._in_progress.add(('loc', key))
        out = set()
        try:
            node0 = getattr(func, 'node', None)
            if node0 is None:
                return out
            # parameter?
            if isinstance(func, FuncInfo) and name in func.params:
                iface_expr = func.injected_interface()
                if iface_expr is not None and name == func.params[-1]:
                    iface = self.repo.resolve_expr_static(
                        func.module, iface_expr)
                    if isinstance(iface, ClassInfo):
                        out |= set(self.impls(iface))
                if func.name == '__init__' and func.cls is not None:
                    for c in [func.cls] + func.cls.all_subclasses():
                        out |= self.ctor_param_types(c, name)
                for a, caller in self.param_args(func, name):
                    out |= self.expr_types(a, caller)
                ann = None
                for a in func.node.args.args:
                    if a.arg == name:
                        ann = a.annotation
                if ann is not None:
                    r = self.repo.resolve_expr_static(func.module, ann)
                    if isinstance(r, ClassInfo):
                        out.add(r)
            for node in _walk_own(node0):
                if isinstance(node, ast.Assign):
                    for t in node.targets:
                        if isinstance(t, ast.Name) and t.id == name:
                            out |= self.expr_types(node.value, func)
                elif isinstance(node, ast.NamedExpr):
                    if node.target.id == name:
                        out |= self.expr_types(node.value, func)
        finally:
            self._in_progress.discard(('loc', key))
        self._local_types[key] = out
        return out

    # ------------------------------------------------------ expressions
    def expr_types(self, expr, func):
        """Set of ClassInfo the value of `expr` (inside `func`) may be an
        instance of. Empty set = unknown."""
        repo = self.repo
        mod = func.module
        if isinstance(expr, ast.Name):
            if expr.id == 'self' and getattr(func, 'cls', None) is not None:
                return {func.cls}
            loc = self.local_types(func, expr.id)
            if loc:
                return loc
            # module-level instance: `fe = FrontEnd()`
            r = repo.resolve_name(mod, expr.id)
            if isinstance(r, tuple) and r[0] == 'const':
                return self.expr_types(r[1].constants[r[2]], _ModCtx(r[1]))
            return set()
        if isinstance(expr, ast.Attribute):
            base_static = repo.resolve_expr_static(mod, expr.value)
            if isinstance(base_static, ClassInfo):
                if base_static.is_enum() and expr.attr in base_static.class_attrs:
                    return {base_static}
                if expr.attr in base_static.class_attrs:
                    return self.expr_types(
                        base_static.class_attrs[expr.attr],
                        _ClassCtx(base_static))
                return set()
            if isinstance(base_static, ModuleInfo):
                r = repo.resolve_name(base_static, expr.attr)
                if isinstance(r, tuple) and r[0] == 'const':
                    return self.expr_types(
                        r[1].constants[r[2]], _ModCtx(r[1]))
                return set()
            out = set()
            for c in self.expr_types(expr.value, func):
                h = self.hint_attr(c, expr.attr)
                if h:
                    out |= h
                out |= self.attr_types(c, expr.attr)
            return out
        if isinstance(expr, ast.Dict):
            out = set()
            for v in expr.values:
                out |= self.expr_types(v, func)
            return out
        if isinstance(expr, ast.Subscript):
            if isinstance(expr.value, ast.Dict):
                return self.expr_types(expr.value, func)
            return set()
        if isinstance(expr, ast.Call):
            target = repo.resolve_expr_static(mod, expr.func)
            if isinstance(target, ClassInfo):
                return {target}
            fn = norm(expr.func)
            if fn.split('.')[-1] == 'provide' and expr.args:
                iface = repo.resolve_expr_static(mod, expr.args[0])
                if isinstance(iface, ClassInfo):
                    return set(self.impls(iface))
            if fn in ('copy.copy', 'copy.deepcopy') and expr.args:
                return self.expr_types(expr.args[0], func)
            if (isinstance(expr.func, ast.Attribute) and expr.func.attr == 'get'
                    and isinstance(expr.func.value, ast.Dict)):
                out = self.expr_types(expr.func.value, func)
                if len(expr.args) > 1:
                    out |= self.expr_types(expr.args[1], func)
                return out
            out = set()
            for callee in self.callees_of_call(expr, func):
                h = self.hint_return(callee)
                if h:
                    out |= h
                out |= self.return_types(callee)
            return out
        if isinstance(expr, ast.IfExp):
            return (self.expr_types(expr.body, func)
                    | self.expr_types(expr.orelse, func))
        if isinstance(expr, ast.BoolOp):
            out = set()
            for v in expr.values:
                out |= self.expr_types(v, func)
            return out
        if isinstance(expr, ast.NamedExpr):
            return self.expr_types(expr.value, func)
        return set()

    # ------------------------------------------------- callable values
    def callable_values(self, expr, func, depth=0):
        """FuncInfo objects that `expr` may evaluate to (bound methods in
        dict displays, getattr-over-enum tables, locals, attributes)."""
        if depth > 6:
            return []
        repo = self.repo
        mod = func.module
        out = []

        def add(fs):
            for f in fs:
                if f not in out:
                    out.append(f)

        if isinstance(expr, ast.Name):
            r = repo.resolve_name(mod, expr.id)
            if isinstance(r, FuncInfo):
                add([r])
            # nested def in this function
            for nf in mod.all_functions:
                if nf.outer is func and nf.name == expr.id:
                    add([nf])
            node0 = getattr(func, 'node', None)
            if node0 is not None:
                for node in _walk_own(node0):
                    if isinstance(node, ast.Assign):
                        for t in node.targets:
                            if isinstance(t, ast.Name) and t.id == expr.id:
                                add(self.callable_values(
                                    node.value, func, depth + 1))
            if isinstance(func, FuncInfo) and expr.id in func.params:
                for a, caller in self.param_args(func, expr.id):
                    add(self.callable_values(a, caller, depth + 1))
            return out
        if isinstance(expr, ast.Attribute):
            st = repo.resolve_expr_static(mod, expr)
            if isinstance(st, FuncInfo):
                add([st])
                return out
            for c in self.expr_types(expr.value, func):
                m = c.lookup(expr.attr)
                if m is not None and not m.is_property:
                    add([m])
                    for sc in c.all_subclasses():
                        if expr.attr in sc.methods:
                            add([sc.methods[expr.attr]])
                else:
                    # attribute holding callables
                    for cc in c.mro():
                        for meth in cc.methods.values():
                            for node in ast.walk(meth.node):
                                if isinstance(node, ast.Assign):
                                    for t in node.targets:
                                        if (isinstance(t, ast.Attribute)
                                                and norm(t.value) == 'self'
                                                and t.attr == expr.attr):
                                            add(self.callable_values(
                                                node.value, meth, depth + 1))
                                        if (isinstance(t, ast.Subscript)
                                                and norm(t.value) == 'self.' + expr.attr):
                                            add(self.callable_values(
                                                node.value, meth, depth + 1))
                        if expr.attr in cc.class_attrs:
                            add(self.callable_values(
                                cc.class_attrs[expr.attr], _ClassCtx(cc),
                                depth + 1))
            return out
        if isinstance(expr, ast.Dict):
            for v in expr.values:
                add(self.callable_values(v, func, depth + 1))
            return out
        if isinstance(expr, (ast.Tuple, ast.List)):
            for v in expr.elts:
                add(self.callable_values(v, func, depth + 1))
            return out
        if isinstance(expr, ast.DictComp):
            add(self.callable_values(expr.value, func, depth + 1))
            for gen in expr.generators:
                add(self.callable_values(gen.iter, func, depth + 1))
            return out
        if isinstance(expr, ast.Subscript):
            add(self.callable_values(expr.value, func, depth + 1))
            return out
        if isinstance(expr, ast.IfExp):
            add(self.callable_values(expr.body, func, depth + 1))
            add(self.callable_values(expr.orelse, func, depth + 1))
            return out
        if isinstance(expr, ast.BoolOp):
            for v in expr.values:
                add(self.callable_values(v, func, depth + 1))
            return out
        if isinstance(expr, ast.Call):
            fn = norm(expr.func)
            if fn == 'getattr' and len(expr.args) >= 2:
                add(self._getattr_table(expr, func))
                return out
            if isinstance(expr.func, ast.Attribute) and expr.func.attr == 'get':
                add(self.callable_values(expr.func.value, func, depth + 1))
                if len(expr.args) > 1:
                    add(self.callable_values(expr.args[1], func, depth + 1))
                return out
            if fn == 'dict' and expr.args:
                add(self.callable_values(expr.args[0], func, depth + 1))
                return out
        if isinstance(expr, ast.Lambda):
            return out
        return out

    def _getattr_table(self, call, func):
        """getattr(self, '_' + member.name.lower()) over an Enum: every method
        of the class whose name is '_' + <lower-case member of some Enum
        named in the enclosing function>."""
        if norm(call.args[0]) != 'self' or func.cls is None:
            return []
        text = norm(call.args[1])
        if '.name.lower()' not in text:
            return []
        prefix = ''
        a1 = call.args[1]
        if isinstance(a1, ast.BinOp) and isinstance(a1.left, ast.Constant):
            prefix = a1.left.value
        enums = []
        for node in ast.walk(func.node):
            if isinstance(node, ast.Name):
                r = self.repo.resolve_name(func.module, node.id)
                if isinstance(r, ClassInfo) and r.is_enum() and r not in enums:
                    enums.append(r)
        out = []
        for e in enums:
            for mname in e.enum_members():
                m = func.cls.lookup(prefix + mname.lower())
                if m is not None and m not in out:
                    out.append(m)
        return out

    # ---------------------------------------------------- call resolution
    def callees_of_call(self, call, func):
        site = self._resolve_call(call, func)
        return site.callees

    def _resolve_call(self, call, func):
        repo = self.repo
        mod = func.module
        fexpr = call.func
        # super().m()
        if (isinstance(fexpr, ast.Attribute) and isinstance(fexpr.value, ast.Call)
                and norm(fexpr.value.func) == 'super' and func.cls is not None):
            for c in func.cls.mro()[1:]:
                if fexpr.attr in c.methods:
                    return CallSite(func, call, [c.methods[fexpr.attr]], 'call',
                                    'super()', fexpr.attr)
            return CallSite(func, call, [], 'extern', 'super()', fexpr.attr)
        target = repo.resolve_expr_static(mod, fexpr)
        if isinstance(target, FuncInfo):
            return CallSite(func, call, [target], 'call', '', target.name)
        if isinstance(target, ClassInfo):
            init = target.lookup('__init__')
            if init is not None:
                return CallSite(func, call, [init], 'call', '', '__init__')
            return CallSite(func, call, [], 'ctor-noinit', '', target.name)
        if isinstance(target, tuple) and target[0] == 'extern':
            return CallSite(func, call, [], 'extern', target[1], '')
        if isinstance(fexpr, ast.Name):
            vals = self.callable_values(fexpr, func)
            if vals:
                return CallSite(func, call, vals, 'call', '', fexpr.id)
            if fexpr.id in _BUILTINS:
                return CallSite(func, call, [], 'extern', 'builtins', fexpr.id)
            return CallSite(func, call, [], 'unresolved', '', fexpr.id)
        if isinstance(fexpr, ast.Attribute):
            types = self.expr_types(fexpr.value, func)
            callees = []
            for c in types:
                m = c.lookup(fexpr.attr)
                if m is not None:
                    if m not in callees:
                        callees.append(m)
                for sc in c.all_subclasses():
                    if fexpr.attr in sc.methods and sc.methods[fexpr.attr] not in callees:
                        callees.append(sc.methods[fexpr.attr])
            if callees:
                # a property holding a callable is not a method call; skip
                return CallSite(func, call, callees, 'call',
                                norm(fexpr.value), fexpr.attr)
            vals = self.callable_values(fexpr, func)
            if vals:
                return CallSite(func, call, vals, 'call',
                                norm(fexpr.value), fexpr.attr)
            base = repo.resolve_expr_static(mod, fexpr.value)
            if isinstance(base, tuple) and base[0] == 'extern':
                return CallSite(func, call, [], 'extern', base[1], fexpr.attr)
            if types:
                # known type without that method: builtin container method etc.
                return CallSite(func, call, [], 'extern',
                                norm(fexpr.value), fexpr.attr)
            return CallSite(func, call, [], 'unresolved',
                            norm(fexpr.value), fexpr.attr)
        # call of a call / subscript: `table[k]()`, `d.get(k, dflt)()`
        vals = self.callable_values(fexpr, func)
        if vals:
            return CallSite(func, call, vals, 'call', norm(fexpr), '')
        return CallSite(func, call, [], 'unresolved', norm(fexpr), '')

    def sites(self, func):
        """All call sites (and property loads, thread spawns) of `func`'s own
        body (nested defs excluded)."""
        if func in self._sites:
            return self._sites[func]
        out = []
        self._sites[func] = out
        for node in _walk_own(func.node):
            if isinstance(node, ast.Call):
                site = self._resolve_call(node, func)
                out.append(site)
                # thread spawn / callbacks passed as arguments
                fn = norm(node.func)
                if fn.endswith('Thread'):
                    for kw in node.keywords:
                        if kw.arg == 'target':
                            vals = self.callable_values(kw.value, func)
                            if vals:
                                out.append(CallSite(func, node, vals, 'spawn',
                                                    '', norm(kw.value)))
            elif isinstance(node, ast.Attribute) and isinstance(node.ctx, ast.Load):
                for c in self.expr_types(node.value, func):
                    m = c.lookup(node.attr)
                    if m is not None and m.is_property:
                        out.append(CallSite(func, node, [m], 'property',
                                            norm(node.value), node.attr))
        return out

    def site_for(self, func, call_node):
        for s in self.sites(func):
            if s.node is call_node and s.kind != 'spawn':
                return s
        return self._resolve_call(call_node, func)

    # -------------------------------------------------------- call graph
    def callees(self, func, kinds=('call', 'property')):
        out = []
        for s in self.sites(func):
            if s.kind in kinds:
                for c in s.callees:
                    if c not in out:
                        out.append(c)
        # nested functions defined here are considered reachable from here
        for nf in func.module.all_functions:
            if nf.outer is func and nf not in out:
                out.append(nf)
        return out

    def reachable(self, roots, kinds=('call', 'property'), stop=()):
        seen, todo = [], list(roots)
        while todo:
            f = todo.pop()
            if f in seen or f in stop:
                continue
            seen.append(f)
            todo.extend(self.callees(f, kinds))
        return seen

    def call_path(self, src, dst, kinds=('call', 'property')):
        """Shortest call-graph path src -> dst as a list of FuncInfo."""
        from collections import deque
        prev = {src: None}
        dq = deque([src])
        while dq:
            f = dq.popleft()
            if f is dst:
                path = []
                while f is not None:
                    path.append(f)
                    f = prev[f]
                return list(reversed(path))
            for c in self.callees(f, kinds):
                if c not in prev:
                    prev[c] = f
                    dq.append(c)
        return None

    def callers(self, func):
        if self._callers is None:
            self._callers = {}
            for f in self.repo.all_functions():
                for s in self.sites(f):
                    for c in s.callees:
                        self._callers.setdefault(c, []).append(s)
        return self._callers.get(func, [])

    def stats(self, prefix=None):
        total = resolved = extern = unresolved = 0
        unresolved_list = []
        for f in self.repo.all_functions(prefix):
            for s in self.sites(f):
                if s.kind in ('property', 'spawn'):
                    continue
                total += 1
                if s.kind in ('call', 'ctor-noinit'):
                    resolved += 1
                elif s.kind == 'extern':
                    extern += 1
                else:
                    unresolved += 1
                    unresolved_list.append(
                        '%s: %s' % (f.short, norm(s.node)[:80]))
        return dict(total=total, resolved=resolved, extern=extern,
                    unresolved=unresolved, unresolved_list=unresolved_list)


class _ClassCtx:
    """Pseudo-function context for class-level expressions."""
    def __init__(self, cls):
        self.cls = cls
        self.module = cls.module
        self.node = None
        self.params = []
        self.name = '<classbody>'


class _ModCtx:
    def __init__(self, mod):
        self.cls = None
        self.module = mod
        self.node = None
        self.params = []
        self.name = '<module>'


def _walk_own(node):
    """ast.walk that does not descend into nested function/class
    definitions (lambdas and comprehensions are descended)."""
    todo = [node]
    first = True
    while todo:
        n = todo.pop()
        if not first and isinstance(n, (ast.FunctionDef, ast.AsyncFunctionDef,
                                        ast.ClassDef)):
            continue
        if first and isinstance(n, (ast.FunctionDef, ast.AsyncFunctionDef)):
            first = False
            yield n
            todo.extend(n.body)
            todo.extend(d for d in n.args.defaults)
            todo.extend(d for d in n.args.kw_defaults if d is not None)
            continue
        first = False
        yield n
        todo.extend(ast.iter_child_nodes(n))


walk_own = _walk_own

_BUILTINS = set(dir(__builtins__)) if not isinstance(__builtins__, dict) \
    else set(__builtins__.keys())
