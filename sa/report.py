"""Rule registry, findings, known-findings matching, evidence files."""
import ast
import json
import os
import time

from .index import AnalysisError, FuncInfo, ClassInfo, ModuleInfo, norm, short_norm

VERIF = os.path.dirname(os.path.dirname(os.path.abspath(__file__)))

RULES = []          # registration order


class Rule:
    def __init__(self, rid, props, title, floor, tier, fn, decides):
        self.id = rid
        self.props = tuple(props)
        self.title = title
        self.floor = floor
        self.tier = tier
        self.fn = fn
        self.decides = decides


def rule(rid, props, title, floor=1, tier='quick', decides=''):
    def deco(fn):
        RULES.append(Rule(rid, props, title, floor, tier, fn, decides))
        return fn
    return deco


class Finding:
    def __init__(self, rule_id, file, func, construct, message, line=0,
                 path=None):
        self.rule = rule_id
        self.file = file
        self.func = func
        self.construct = construct
        self.message = message
        self.line = line
        self.path = path or []

    def key(self):
        return (self.rule, self.func, self.construct)

    def as_dict(self):
        return dict(rule=self.rule, file=self.file, line=self.line,
                    function=self.func, construct=self.construct,
                    message=self.message, path=self.path)


class RuleRun:
    """Handed to each rule function: records instances and findings."""

    def __init__(self, rule_obj, analysis):
        self.rule = rule_obj
        self.A = analysis
        self.repo = analysis.repo
        self.rs = analysis.rs
        self.instances = []
        self.findings = []
        self.notes = []

    # where: FuncInfo | ClassInfo | ModuleInfo | (file, name)
    def _where(self, where):
        if isinstance(where, FuncInfo):
            return where.file, where.short
        if isinstance(where, ClassInfo):
            return where.file, where.name
        if isinstance(where, ModuleInfo):
            return where.relpath, where.short
        return where

    def check(self, where, construct, ok, message='', path=None, line=None,
              note=''):
        file, name = self._where(where)
        if isinstance(construct, ast.AST):
            if line is None:
                line = getattr(construct, 'lineno', 0)
            text = short_norm(construct, 200)
        else:
            text = ' '.join(str(construct).split())
        inst = dict(rule=self.rule.id, file=file, function=name,
                    construct=text, verdict='ok' if ok else 'FAIL')
        if note:
            inst['note'] = note
        self.instances.append(inst)
        if not ok:
            self.findings.append(Finding(self.rule.id, file, name, text,
                                         message, line or 0, path))
        return ok

    def ok(self, where, construct, note=''):
        return self.check(where, construct, True, note=note)

    def fail(self, where, construct, message, path=None, line=None):
        return self.check(where, construct, False, message, path, line)

    def note(self, text):
        self.notes.append(text)


def load_known():
    p = os.path.join(VERIF, 'known_findings.json')
    if not os.path.exists(p):
        return {'known': [], 'fixed': []}
    with open(p) as f:
        return json.load(f)


def match_known(finding, known):
    for k in known.get('known', []):
        if (k['rule'] == finding.rule and k['function'] == finding.func
                and k['construct'] == finding.construct):
            return k
    return None


def run_property(analysis, prop_id, tier, seed=0, only_rule=None,
                 write_evidence=True, quiet=False):
    """Run every rule registered for prop_id. Returns (exit_status, lines)."""
    t0 = time.time()
    known = load_known()
    rules = [r for r in RULES if prop_id in r.props
             and (tier == 'thorough' or r.tier == 'quick')
             and (only_rule is None or r.id == only_rule)]
    if not rules:
        raise AnalysisError('no rules registered for %s' % prop_id)
    lines = []
    runs = []
    for r in rules:
        run = analysis.run_rule(r)
        if len(run.instances) < r.floor:
            raise AnalysisError(
                'rule %s examined %d instance(s), fewer than the %d confirmed '
                'by hand: an anchor has moved or vanished (%s)'
                % (r.id, len(run.instances), r.floor, r.title))
        runs.append(run)

    violations, knowns = [], []
    for run in runs:
        for f in run.findings:
            k = match_known(f, known)
            if k is not None and (not k.get('properties')
                                  or prop_id in k['properties']):
                knowns.append((f, k))
            else:
                violations.append(f)

    for f, k in knowns:
        lines.append('KNOWN-FINDING: property=%s rule=%s %s:%s %s -- %s'
                     % (prop_id, f.rule, f.file, f.func, f.construct,
                        k.get('what', f.message)))
    replay_path = ''
    if violations:
        outdir = os.path.join(VERIF, 'out')
        os.makedirs(outdir, exist_ok=True)
        replay_path = os.path.join(outdir, '%s.violations.json' % prop_id)
        with open(replay_path, 'w') as fh:
            json.dump([f.as_dict() for f in violations], fh, indent=1)
        for f in violations:
            lines.append('  %s %s:%d %s: %s\n      construct: %s'
                         % (f.rule, f.file, f.line, f.func, f.message,
                            f.construct))
            for p in f.path[:12]:
                lines.append('      via ' + p)
        lines.append('VIOLATION property=%s replay=%s' % (prop_id, replay_path))

    n_inst = sum(len(r.instances) for r in runs)
    n_fail = sum(len(r.findings) for r in runs)
    distinct = len(set((i['rule'], i['function'], i['construct'])
                       for r in runs for i in r.instances))
    if write_evidence:
        samples = []
        for r in runs:
            fails = [i for i in r.instances if i['verdict'] == 'FAIL']
            oks = [i for i in r.instances if i['verdict'] == 'ok']
            samples += fails[:6] + oks[:4]
        st = analysis.stats()
        ev = {
            'property_id': prop_id,
            'tier': tier,
            'seed': int(seed),
            'level': 'other',
            'coverage': {
                'explanation': analysis.explanation(prop_id, rules),
                'obligations': n_inst,
                'discharged': n_inst - n_fail,
                'evaluations': n_inst,
                'distinct_nontrivial': distinct,
                'rule': 'one evaluation = one rule instance (a construct of '
                        'the current /repo source on which a rule had to '
                        'decide: call site, emission site, table row, CFG '
                        'path query); distinct = distinct (rule, function, '
                        'normalised construct) triples; instances where a '
                        'rule has nothing to decide are not recorded',
                'samples': samples[:60],
                'checker_cmd': './check %s --tier %s' % (prop_id, tier),
                'trusted_base': [
                    'CPython ast parser',
                    'sa/cfg.py statement CFG (exception edges only inside try)',
                    'sa/resolve.py receiver-type inference and DI binding table',
                    'oracle tables quoted from the property text / docs in sa/rules',
                ],
                'rules': [dict(id=r.rule.id, title=r.rule.title,
                               decides=r.rule.decides,
                               instances=len(r.instances),
                               findings=len(r.findings), floor=r.rule.floor,
                               notes=r.notes[:8])
                          for r in runs],
                'analysed': st,
                'known_findings_reported': len(knowns),
                'unlisted_violations': len(violations),
                'repo_digest': analysis.repo.digest[:16],
            },
            'assumptions': [
                'PASS means the structural obligations listed in DESIGN.md for '
                'this property are discharged on the current tree; it does not '
                'mean the behavioural statement was verified',
                'dynamic features not modelled: setattr/getattr beyond the '
                'enum-dispatch idiom, monkey-patching, exceptions outside try',
            ],
            'wall_s': round(time.time() - t0 + analysis.setup_s, 3),
            'violations': len(violations),
        }
        evdir = os.path.join(VERIF, 'evidence')
        os.makedirs(evdir, exist_ok=True)
        with open(os.path.join(evdir, '%s.json' % prop_id), 'w') as fh:
            json.dump(ev, fh, indent=1, sort_keys=True)
            fh.write('\n')
    summary = ('%s tier=%s rules=%d instances=%d findings=%d known=%d '
               'violations=%d (%.2fs)'
               % (prop_id, tier, len(runs), n_inst, n_fail, len(knowns),
                  len(violations), time.time() - t0 + analysis.setup_s))
    for r in runs:
        lines.append('  %-6s %-58s inst=%-3d fail=%d'
                     % (r.rule.id, r.rule.title[:58], len(r.instances),
                        len(r.findings)))
    lines.append(summary)
    return (1 if violations else 0), lines
