"""M2080 / C02: built-ins return their documented results: [cycle 360] is 0
(docs/language.rst table), wherever the value is used."""
import os, sys
sys.path.insert(0, os.path.join(os.path.dirname(os.path.abspath(__file__)), ".."))
os.chdir(os.path.join(os.path.dirname(os.path.abspath(__file__)), ".."))
import warnings; warnings.simplefilter("ignore")
import logging
logging.disable(logging.CRITICAL)

from tests import test_module
test_module.configure()
from bardolph.controller.script_job import ScriptJob

job = ScriptJob.from_string(
    'assign a [cycle 360] assign b {[cycle {300 + 60}] + 1} '
    'assign c [cycle 355] assign d [cycle 365] assign e [cycle -10] '
    'assign f [cycle 3607] assign g [cycle 0]')
assert job.program is not None, job.compile_errors
job.execute()
stack = job.get_machine_state().call_stack
actual = [stack.get_variable(n) for n in 'abcdefg']
expected = [0, 1, 355, 5, 350, 7, 0]
if actual != expected:
    print('FAIL: got', actual, 'expected', expected)
    sys.exit(1)
print('OK')
sys.exit(0)
