"""C12: discovery never raises.  LifxLanApi.get_lights() + LightSet.discover()
with the network layer stubbed (all requests succeed), default configuration
(default_num_lights None) and also with default_num_lights set."""
import logging
import sys
import warnings
warnings.simplefilter('ignore')
sys.path.insert(0, '/tmp/wm-M04')

import lifxlan
from lifxlan.msgtypes import GetDeviceChain


class FakeDevice:
    def __init__(self, label, features):
        self._label, self._features = label, features
    def get_label(self): return self._label
    def get_group(self): return 'grp'
    def get_location(self): return 'loc'
    def get_product_features(self): return self._features
    def get_product_name(self): return 'fake'
    def get_color_zones(self, first=None, last=None):
        return [[1, 2, 3, 4]] * 8
    def req_with_resp(self, req_type, resp_type, payload=None):
        assert req_type is GetDeviceChain
        class Chain:
            start_index = 0
            tile_devices = [{'width': 5, 'height': 6}]
        return Chain()


class FakeLifxLAN:
    def __init__(self, num_lights=None):
        pass
    def get_lights(self):
        return [FakeDevice('bulb', {}),
                FakeDevice('strip', {'multizone': True}),
                FakeDevice('candle', {'matrix': True})]

lifxlan.LifxLAN = FakeLifxLAN

from bardolph.controller import config_values, i_controller, lifx_lan_api
from bardolph.controller.light_set import LightSet
from bardolph.lib import injection, settings

failed = False
for overrides in ({}, {'default_num_lights': 5}):
    injection.configure()
    settings.using(config_values.functional).add_overrides(
        {'log_level': logging.CRITICAL, **overrides}).configure()
    lifx_lan_api.configure()
    light_set = LightSet()
    try:
        result = light_set.discover()
    except Exception as ex:
        print('overrides', overrides, ': discover() RAISED', repr(ex))
        failed = True
        continue
    names = list(light_set.get_light_names())
    print('overrides', overrides, ': discover() ->', result, names)
    if result is not True or names != ['bulb', 'candle', 'strip']:
        failed = True
    tile = light_set.get_light('candle')
    if (not isinstance(tile, i_controller.MatrixLight)
            or (tile.get_height(), tile.get_width()) != (6, 5)
            or tile.get_name() != 'candle'):
        print('matrix light not set up properly')
        failed = True

print('FAIL' if failed else 'ok')
sys.exit(1 if failed else 0)
