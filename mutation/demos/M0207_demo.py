"""
M0207: WebApp.stop_script looks up self._scripts.get(None, path), which
returns the path *string*, so `script_control.path` raises AttributeError and
the named job is never stopped.  Clean tree: stop_script('loop') returns True
and the running job 'loop' ends.  Exit 0 = stop works, 1 = it does not.
"""
import sys
sys.path.insert(0, '/tmp/wm-M15')
import warnings
warnings.simplefilter('ignore')
import logging, os, tempfile, time
import bardolph
assert bardolph.__file__.startswith('/tmp/wm-M15/'), bardolph.__file__

from bardolph.controller import light_set
from bardolph.fakes import fake_clock, fake_light_api
from bardolph.lib import injection, log_config, settings, std_out_output
from bardolph.runtime import runtime_module

script_dir = tempfile.mkdtemp(prefix='m0207_')
with open(os.path.join(script_dir, 'loop.ls'), 'w') as f:
    f.write('repeat begin assign x 1 end\n')      # runs until stopped

injection.configure()
settings.using({
    'log_level': logging.ERROR, 'log_to_console': True,
    'single_light_discover': True, 'use_fakes': True,
    'manifest_file_name': None, 'script_path': script_dir,
}).configure()
log_config.configure()
fake_clock.configure()
fake_light_api.configure()
light_set.configure()
std_out_output.configure()
runtime_module.configure()

import web.web_app as web_app_mod
assert web_app_mod.__file__.startswith('/tmp/wm-M15/')
from web.web_app import ScriptControl, WebApp

app = WebApp()
app._scripts['loop'] = ScriptControl('loop.ls', False, 'Loop', 'loop', '', '')

ok = False
try:
    control = app.get_script_control('loop')
    assert control is not None and not control.running
    app.queue_script(control)
    deadline = time.time() + 5
    while not app.get_script_control('loop').running and time.time() < deadline:
        time.sleep(0.01)
    assert app.get_script_control('loop').running, 'job did not start'

    try:
        result = app.stop_script('loop')
    except Exception as ex:
        print('FAIL: stop_script raised {!r}'.format(ex))
        result = None
    if result is True:
        deadline = time.time() + 5
        while app.get_script_control('loop').running and time.time() < deadline:
            time.sleep(0.01)
        ok = not app.get_script_control('loop').running
        print('stop_script returned True; job still running:', not ok)
    elif result is not None:
        print('FAIL: stop_script returned', result)
finally:
    app.stop_all()          # let the process end in any case

print('OK' if ok else 'FAIL: the named job was not stopped')
sys.exit(0 if ok else 1)
