"""M1009: ScriptControl.__init__ no longer stores 'icon'.
A request for a manifest-listed path must start the script and hand the
escaped manifest strings to the action page; a repeated request while it runs
must render the page again without starting it twice; /stop/<path> must render
too.  With the patch front_end.render_action reads script_control.icon and
every such request dies with AttributeError (HTTP 500) instead of a page.
Exit 0 = property holds, 1 = violated."""
import os
import sys
import threading
import types
sys.path.insert(0, '/tmp/wm-M14')
import bardolph
assert bardolph.__file__.startswith('/tmp/wm-M14/'), bardolph.__file__
os.chdir('/tmp/wm-M14')

# ---- stub flask ----
rendered = []
flask = types.ModuleType('flask')
class Blueprint:
    def __init__(self, *_, **__): pass
    def route(self, *_, **__):
        return lambda fn: fn
class _Request:
    headers = {'User-Agent': 'demo'}
def render_template(name, **kwargs):
    rendered.append((name, kwargs))
    return 'page:' + name
flask.Blueprint = Blueprint
flask.render_template = render_template
flask.request = _Request()
sys.modules['flask'] = flask

from bardolph.lib import injection, settings
from bardolph.lib.injection import provide
from bardolph.controller.script_job import ScriptJob
from tests import test_module
import web
assert web.__file__.startswith('/tmp/wm-M14/'), web.__file__
from web import i_web, web_app

test_module.configure()
app = web_app.WebApp()          # loads web/manifest.json
injection.bind_instance(app).to(i_web.WebApp)

# Jobs that block until released, so that "running" is observable.
release = threading.Event()
started = []
class BlockingJob:
    def __init__(self, name): self.name = name
    def execute(self):
        started.append(self.name)
        release.wait(5)
    def request_stop(self): release.set()
ScriptJob.from_file = staticmethod(lambda fname: BlockingJob(fname))

from web import front_end
fe = front_end.fe

failures = []
def request(label, fn, *args):
    try:
        result = fn(*args)
        print(label, '->', result)
        return result
    except Exception as ex:
        print(label, '-> EXCEPTION', type(ex).__name__, ex)
        failures.append(label)

request('GET /on', fe.run_script, 'on')
request('GET /on (again, running)', fe.run_script, 'on')
request('GET /stop/on', fe.stop_script, 'on')
release.set()
print('started:', started)
print('templates:', [name for name, _ in rendered])
ok = (not failures and len(started) == 1
      and [name for name, _ in rendered] == ['action.html'] * 3)
print('OK' if ok else 'VIOLATION: requests for a listed path failed')
sys.exit(0 if ok else 1)
