import sys; sys.path.insert(0, "/tmp/wm-M07")  # make sure the worktree is imported
# C07: a raw colour read from a light (get) and expressed in logical units
# converts back to the same raw colour when it is set again.
import bardolph; assert bardolph.__file__.startswith("/tmp/wm-M07"), bardolph.__file__
from tests import test_module
from bardolph.controller import i_controller
from bardolph.controller.script_job import ScriptJob
from bardolph.lib.injection import provide

test_module.configure()
api = provide(i_controller.LightApi)
top = [l for l in api.get_lights() if l.get_name() == 'Top'][0]
bad = []
for raw_hue in (0, 50, 100, 181, 182, 1000, 65535):
    top._color = [raw_hue, 20000, 30000, 3500]
    job = ScriptJob.from_string('get "Top" set "Top"')
    assert job.program is not None
    job.execute()
    sent = list(top._set_color)
    expect = [raw_hue % 65535, 20000, 30000, 3500]
    if sent != expect:
        bad.append((expect, sent))
if bad:
    print("FAIL: get/set round trip changed the colour:", bad)
    sys.exit(1)
print("ok")
sys.exit(0)
