# C12/C13: discovery over the real (lifxlan-backed) light wrapper must not
# raise, and must register every light under its name, group and location.
import sys, logging
sys.path.insert(0, '/tmp/wm-M01')
from bardolph.lib import injection, settings
from bardolph.controller import i_controller, lifx_lan_light
from bardolph.controller.light_set import LightSet

logging.disable(logging.CRITICAL)

class Impl:
    """Stands in for lifxlan.Light; every request succeeds."""
    def __init__(self, label, group, location):
        self._l, self._g, self._loc = label, group, location
    def get_label(self): return self._l
    def get_group(self): return self._g
    def get_location(self): return self._loc
    def get_product_features(self): return {}
    def get_product_name(self): return 'fake'

class Api(i_controller.LightApi):
    def get_lights(self):
        return [lifx_lan_light.Light(Impl('b', 'g1', 'home')),
                lifx_lan_light.Light(Impl('a', 'g1', 'home'))]

injection.configure()
settings.using({'single_light_discover': True}).configure()
injection.bind_instance(Api()).to(i_controller.LightApi)

light_set = LightSet()
try:
    ok = light_set.discover()
except Exception as ex:
    print('discover raised', type(ex).__name__, ex)
    sys.exit(1)
names = list(light_set.get_light_names())
group = list(light_set.get_group_lights('g1') or [])
loc = list(light_set.get_location_lights('home') or [])
ages_ok = all(l.get_age() >= 0 for l in light_set.get_lights())
print(ok, names, group, loc, ages_ok)
sys.exit(0 if ok and names == ['a', 'b'] == group == loc and ages_ok else 1)
