# C20: a request for a manifest path starts the script listed for it.
# The web server is set up by web_module.configure() (called from
# flask_module.configure()).  With the patch the Runtime is never bound, so
# Parser.parse() raises UnboundException for every script the web app loads.
import sys, os, tempfile, time
sys.path.insert(0, '/tmp/wm-M12')
os.chdir('/tmp/wm-M12')
import bardolph
assert bardolph.__file__.startswith('/tmp/wm-M12')

import atexit, shutil
tmpdir = tempfile.mkdtemp(prefix='m1930_', dir='/tmp/wm-M12/mutants')
atexit.register(shutil.rmtree, tmpdir, True)
ini = os.path.join(tmpdir, 'web.ini')
with open(ini, 'w') as f:
    f.write('[settings]\nuse_fakes = True\nsingle_light_discover = True\n'
            'log_to_console = True\nlog_level = CRITICAL\n')
os.environ['BARDOLPH_INI'] = ini

from web import web_module, i_web
from bardolph.lib.injection import provide
from bardolph.controller import i_controller

web_module.configure()          # the web process' own start-up routine
app = provide(i_web.WebApp)
ctl = app.get_script_control('on')      # manifest: path "on" -> on-all.ls
assert ctl is not None and ctl.file_name == 'on-all.ls'
try:
    app.queue_script(ctl)
except Exception as ex:
    print('FAIL: request for /on raised', type(ex).__name__, ex)
    sys.exit(1)
deadline = time.time() + 10
while app._jobs.has_jobs() and time.time() < deadline:
    time.sleep(0.01)
api = provide(i_controller.LightApi)
calls = api.get_call_list()
print('calls to all lights:', calls)
ok = len(calls) == 1
print('OK' if ok else 'FAIL: on-all.ls did not run')
sys.exit(0 if ok else 1)
