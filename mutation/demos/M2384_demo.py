"""C11: `time at P1 or P2` with two valid patterns must compile and match
exactly the union of the two patterns."""
import sys
sys.path.insert(0, '.')
from tests import test_module
from bardolph.parser.parse import Parser
from bardolph.vm.vm_codes import OpCode

test_module.configure()
parser = Parser()
if not parser.parse('time at 12:00 or 13:3*\non all'):
    print('FAIL: valid alternatives rejected:', parser.get_errors())
    sys.exit(1)
pats = [i for i in parser.get_program() if i.op_code is OpCode.TIME_PATTERN]
if len(pats) != 2 or any(p.param1 is None for p in pats):
    print('FAIL: bad TIME_PATTERN instructions', pats)
    sys.exit(1)
# a malformed second alternative must still be rejected
parser = Parser()
if parser.parse('time at 12:00 or 25:00\non all'):
    print('FAIL: invalid alternative accepted')
    sys.exit(1)
print('ok')
sys.exit(0)
