# C15 (also C12/C01): `set L zone a b` on a lifxlan-backed multizone light must
# colour zones a..b, and the script must carry on with the following commands.
import sys, logging
sys.path.insert(0, '/tmp/wm-M01')
from bardolph.lib import injection, settings, log_config, std_out_output
from bardolph.fakes import fake_clock
from bardolph.runtime import runtime_module
from bardolph.controller import i_controller, lifx_lan_light, light_set
from bardolph.controller.script_job import ScriptJob

class Impl:
    """Stands in for lifxlan.MultiZoneLight / Light; all requests succeed."""
    def __init__(self, label, multizone):
        self.label, self.multizone, self.calls = label, multizone, []
    def get_label(self): return self.label
    def get_group(self): return 'g'
    def get_location(self): return 'l'
    def get_product_features(self): return {'multizone': self.multizone}
    def set_zone_color(self, first, last, color, duration):
        self.calls.append(('zone', first, last, color, duration))
    def set_color(self, color, duration, rapid):
        self.calls.append(('color', color, duration))

strip_impl, lamp_impl = Impl('Strip', True), Impl('Lamp', False)

class Api(i_controller.LightApi):
    def get_lights(self):
        return [lifx_lan_light.MultizoneLight(strip_impl, 8),
                lifx_lan_light.Light(lamp_impl)]

injection.configure()
settings.using({'log_level': logging.CRITICAL, 'log_to_console': True,
                'single_light_discover': True}).configure()
log_config.configure()
logging.disable(logging.CRITICAL)
fake_clock.configure()
injection.bind_instance(Api()).to(i_controller.LightApi)
light_set.configure()
std_out_output.configure()
runtime_module.configure()

job = ScriptJob.from_string(
    'units raw hue 1 saturation 2 brightness 3 kelvin 4 duration 5 '
    'set "Strip" zone 2 4 set "Lamp"')
assert job.program is not None, job.compile_errors
job.execute()
print(strip_impl.calls, lamp_impl.calls)
ok = (len(strip_impl.calls) == 1
      and strip_impl.calls[0][:2] == ('zone', 2)
      and strip_impl.calls[0][3:] == ([1, 2, 3, 4], 5)
      and lamp_impl.calls == [('color', [1, 2, 3, 4], 5)])
sys.exit(0 if ok else 1)
