"""M0259: TextSnapshot.start_multizone builds the format spec '{:>4.75}' which
is illegal for an int power value -> the /status page raises ValueError as soon
as one multizone light is known.  Exit 0 = status page renders, 1 = it raises."""
import os
import sys
import types

sys.path.insert(0, '/tmp/wm-M21')
os.chdir('/tmp/wm-M21')
import bardolph
assert bardolph.__file__.startswith('/tmp/wm-M21'), bardolph.__file__

# --- stub flask (not installed) -------------------------------------------
flask = types.ModuleType('flask')
rendered = []

def render_template(name, **kwargs):
    rendered.append((name, kwargs))
    return '{}:{}'.format(name, sorted(kwargs.items(), key=lambda kv: kv[0]))

class Blueprint:
    def __init__(self, *a, **k): pass
    def route(self, *a, **k):
        return lambda fn: fn

class _Req:
    headers = {'User-Agent': 'Mozilla/5.0 (X11; Linux x86_64)'}

flask.render_template = render_template
flask.Blueprint = Blueprint
flask.request = _Req()
sys.modules['flask'] = flask

import logging
from bardolph.controller import light_set
from bardolph.fakes import fake_clock, fake_light_api
from bardolph.fakes.fake_light_api import LightType
from bardolph.lib import injection, log_config, settings, std_out_output
from bardolph.runtime import runtime_module

injection.configure()
settings.using({
    'log_level': logging.ERROR, 'log_to_console': True,
    'single_light_discover': True, 'use_fakes': True,
    'manifest_file_name': None, 'matrix_init_color': [4, 3, 2, 1],
}).configure()
log_config.configure()
fake_clock.configure()
fake_light_api.using((
    ('Lamp', 'Furniture', 'Home'),
    ('Strip', 'Furniture', 'Home', LightType.MULTI_ZONE, 4),
)).configure()
light_set.configure()
std_out_output.configure()
runtime_module.configure()

from web import i_web, web_app, front_end
assert web_app.__file__.startswith('/tmp/wm-M21')
injection.bind_instance(web_app.WebApp()).to(i_web.WebApp)

try:
    page = front_end.status()
except Exception as ex:
    print('FAIL: status page raised {}: {}'.format(type(ex).__name__, ex))
    sys.exit(1)

lights = rendered[-1][1]['data']['lights']
if 'Strip' not in lights or 'Lamp' not in lights:
    print('FAIL: lights missing from status text')
    sys.exit(1)
print('OK: status page rendered')
sys.exit(0)
