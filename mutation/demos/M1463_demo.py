import sys, os, io, contextlib, logging
ROOT = os.path.dirname(os.path.dirname(os.path.abspath(__file__)))
sys.path.insert(0, ROOT)
os.chdir(ROOT)
import bardolph
assert os.path.abspath(bardolph.__file__).startswith(ROOT + os.sep), bardolph.__file__
# C19: printf fills positional fields with the following values, in order.
from tests import test_module
from bardolph.controller.script_job import ScriptJob

bad = 0
for script, expected in (
        ('printf "{} {}" 1 2', '1 2'),
        ('define a 7 printf "{}-{}-{}" a {a * 2} "z"', '7-14-z'),
        ('printf "{1} {0}" 10 20', '20 10')):
    test_module.configure()
    job = ScriptJob.from_string(script)
    assert job.program is not None, job.compile_errors
    buf = io.StringIO()
    with contextlib.redirect_stdout(buf):
        job.execute()
    got = buf.getvalue().strip()
    ok = got == expected
    print('{!r}: expected {!r}, got {!r} {}'.format(script, expected, got, 'ok' if ok else 'WRONG'))
    bad += not ok
sys.exit(1 if bad else 0)
