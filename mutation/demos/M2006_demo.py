import sys
sys.path.insert(0, '/tmp/wm-M16')
import bardolph
assert bardolph.__file__.startswith('/tmp/wm-M16/'), bardolph.__file__
import logging
import lifxlan
from bardolph.lib import injection, settings
from bardolph.controller import i_controller, lifx_lan_api, light_set

class Dev:
    """Stub of a lifxlan device: every request succeeds."""
    def __init__(self, label, group, location):
        self.label, self.group, self.location = label, group, location
        self.calls = []
    def get_label(self): return self.label
    def get_group(self): return self.group
    def get_location(self): return self.location
    def get_product_features(self): return {}
    def get_product_name(self): return 'stub'
    def get_color(self): return [1, 2, 3, 4]
    def get_power(self): return 0
    def set_color(self, *a): self.calls.append(('color',) + a)
    def set_power(self, *a): self.calls.append(('power',) + a)

DEVS = [Dev('b', 'g1', 'loc'), Dev('a', 'g1', 'loc'), Dev('c', 'g2', 'loc')]

class StubLan:
    def __init__(self, num_lights=None): self.calls = []
    def get_lights(self): return DEVS
    def set_color_all_lights(self, *a): self.calls.append(('color',) + a)
    def set_power_all_lights(self, *a): self.calls.append(('power',) + a)

lifxlan.LifxLAN = StubLan
injection.configure()
settings.using({'single_light_discover': True, 'use_fakes': False,
                'log_level': logging.ERROR}).configure()
lifx_lan_api.configure()
# C13: every known light is listed under exactly the group it last reported
# (and C12: discovery never raises). controller.Light._group is read by
# get_group() and only assigned by the constructor line the patch deletes;
# lifx_lan_light.Light relies on it (the fakes set their own _group).
bad = 0
ls = light_set.LightSet()
try:
    ok = ls.discover()
    print('discover ->', ok)
except Exception as ex:
    print('discover raised:', repr(ex))
    bad = 1
names = list(ls.get_light_names())
groups = {g: list(ls.get_group_lights(g)) for g in ls.get_group_names()}
print('lights', names, 'groups', groups)
if names != ['a', 'b', 'c'] or groups != {'g1': ['a', 'b'], 'g2': ['c']}:
    print('directory inconsistent')
    bad = 1
sys.exit(bad)
