"""
M1483: LifxLanApi.__init__ calls settings.get_value(None, 'default_num_lights'),
which returns the *string* 'default_num_lights' (no key None in the settings)
whatever the configuration says.  The real lifxlan library then evaluates
`num_devices_seen < self.num_devices` (int < str) in broadcast_with_resp and
raises TypeError, which is neither WorkflowException nor LightException: every
discovery through the real network layer raises.
The real lifxlan.LifxLAN code runs here; only its UDP socket and its clock are
replaced (a network on which nobody answers).  Clean tree: discover() returns
True with no lights.  Exit 0 = discover() returns, 1 = it raises.
"""
import sys
sys.path.insert(0, '/tmp/wm-M15')
import warnings
warnings.simplefilter('ignore')
import logging
import socket as real_socket
import bardolph
assert bardolph.__file__.startswith('/tmp/wm-M15/'), bardolph.__file__

import lifxlan
import lifxlan.lifxlan as lan_mod


class SilentSocket:
    def __init__(self, *_): pass
    def setsockopt(self, *_): pass
    def settimeout(self, *_): pass
    def bind(self, *_): pass
    def sendto(self, *_): pass
    def close(self): pass
    def recvfrom(self, *_):
        raise real_socket.timeout()


_now = [0.0]
def fast_time():
    _now[0] += 10.0                 # every receive attempt times out at once
    return _now[0]

lan_mod.socket = SilentSocket
lan_mod.time = fast_time

from bardolph.controller import lifx_lan_api
from bardolph.controller.light_set import LightSet
from bardolph.lib import injection, settings

logging.disable(logging.CRITICAL)
rc = 0
for config in ({'default_num_lights': None}, {'default_num_lights': 2}, {}):
    injection.configure()
    settings.using(config).configure()
    lifx_lan_api.configure()
    light_set = LightSet()
    try:
        result = light_set.discover()
        print(config, '-> discover() returned', result,
              'lights:', list(light_set.get_light_names()))
        if result not in (True, False):
            rc = 1
    except Exception as ex:
        print(config, '-> FAIL: discover() raised {!r}'.format(ex))
        rc = 1
print('OK' if rc == 0 else 'FAIL')
sys.exit(rc)
