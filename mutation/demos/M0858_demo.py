# C20: a request for a manifest-listed path starts that script (and only
# listed paths start anything).
import sys, os, json, time, types, tempfile, logging
sys.path.insert(0, '/tmp/wm-M01')
os.chdir('/tmp/wm-M01')

# --- stub flask -----------------------------------------------------------
flask = types.ModuleType('flask')
class Blueprint:
    def __init__(self, *a, **k): pass
    def route(self, *a, **k): return lambda fn: fn
class _Req:
    headers = {'User-Agent': 'demo'}
flask.Blueprint = Blueprint
flask.request = _Req()
flask.render_template = lambda name, **kw: (name, kw)
sys.modules['flask'] = flask

from bardolph.lib import injection, settings, log_config, std_out_output
from bardolph.fakes import fake_clock, fake_light_api
from bardolph.runtime import runtime_module
from bardolph.controller import i_controller, light_set
from web import web_app, i_web, front_end

tmp = tempfile.mkdtemp()
with open(os.path.join(tmp, 'go.ls'), 'w') as f:
    f.write('units raw hue 11 saturation 22 brightness 33 kelvin 44 '
            'duration 0 set "light_1"\n')
manifest = os.path.join(tmp, 'manifest.json')
json.dump([{'file_name': 'go.ls', 'background': 'x', 'color': 'y'}],
          open(manifest, 'w'))

injection.configure()
settings.using({'log_level': logging.CRITICAL, 'log_to_console': True,
                'single_light_discover': True, 'use_fakes': True,
                'manifest_file_name': manifest, 'script_path': tmp
                }).configure()
log_config.configure()
logging.disable(logging.CRITICAL)
fake_clock.configure()
fake_light_api.using_small_set().configure()
light_set.configure()
std_out_output.configure()
runtime_module.configure()
app = web_app.WebApp()
injection.bind_instance(app).to(i_web.WebApp)

fe = front_end.FrontEnd()
def calls():
    api = injection.provide(i_controller.LightApi)
    return {l.get_name(): l.get_call_list() for l in api.get_lights()
            if l.get_call_list()}
def wait():
    for _ in range(300):
        if not app._jobs.has_jobs(): return
        time.sleep(0.01)

failed = False
fe.run_script('nothing-here'); wait()
if calls():
    print('unlisted path started something', calls()); failed = True
try:
    page = fe.run_script('go')
    wait()
    print('page', page[0], page[1].get('message'))
except Exception as ex:
    print('request for listed path raised', type(ex).__name__, ex)
    failed = True
got = calls()
print(got)
if [c[1] for c in got.get('light_1', [])] != [[11, 22, 33, 44]]:
    failed = True
sys.exit(1 if failed else 0)
