"""C13: stepping forward from any name, present or since removed, yields the
nearest remaining name in that direction - also when only one name remains."""
import sys
sys.path.insert(0, '/tmp/wm-M04')
from bardolph.lib.sorted_list import SortedList

failed = False
for names in (['m'], ['c', 'm'], ['c', 'm', 'x'], []):
    lst = SortedList(names)
    for probe in ('a', 'c', 'd', 'm', 'n', 'x', 'z'):
        want = min((n for n in names if n > probe), default=None)
        got = lst.next(probe)
        if got != want:
            print('SortedList({}).next({!r}) = {!r}, expected {!r}'.format(
                names, probe, got, want))
            failed = True

# Same thing seen through the light directory: iteration in progress when the
# current light disappears and a single light is left.
lst = SortedList(['a', 'b'])
current = lst.first()
lst.remove('a')
if lst.next(current) != 'b':
    print('iteration lost the remaining light "b"')
    failed = True
print('FAIL' if failed else 'ok')
sys.exit(1 if failed else 0)
