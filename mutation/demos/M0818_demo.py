"""C11: `time at P` - patterns that denote a time (12:00, 1*:*5) are accepted
and match exactly their times; patterns that can match nothing (25:00, 12:60)
are rejected at compile time, so every accepted pattern matches some time."""
import sys
import warnings
warnings.simplefilter('ignore')
sys.path.insert(0, '/tmp/wm-M04')

from tests import test_module
from bardolph.parser.parse import Parser
from bardolph.vm.vm_codes import OpCode

test_module.configure()

def compile_pattern(text):
    parser = Parser()
    if not parser.parse('time at {}\non all\n'.format(text)):
        return None, parser.get_errors()
    return parser.get_program(), ''

failed = False
for good, sample in (('12:00', (12, 0)), ('1*:*5', (17, 45)), ('*:30', (3, 30))):
    program, errors = compile_pattern(good)
    if program is None:
        print('valid pattern', good, 'REJECTED:', errors.strip())
        failed = True
        continue
    pats = [i.param1 for i in program if i.op_code is OpCode.TIME_PATTERN]
    if len(pats) != 1 or pats[0] is None or not pats[0].match(*sample):
        print('valid pattern', good, 'compiled to', pats)
        failed = True

for bad in ('25:00', '12:60', '3*:00'):
    program, errors = compile_pattern(bad)
    if program is not None:
        pats = [i.param1 for i in program if i.op_code is OpCode.TIME_PATTERN]
        print('impossible pattern', bad, 'ACCEPTED, compiled to', pats)
        failed = True
    elif 'Line 1' not in errors:
        print('rejection without a line number:', errors)
        failed = True

print('FAIL' if failed else 'ok')
sys.exit(1 if failed else 0)
