"""C18: the capture script (ScriptSnapshot().generate(None), what `lscap -s`
and the web Capture button produce) must compile and, replayed against the
same lights in another state, restore every captured colour / zone / cell."""
import copy, random, sys
sys.path.insert(0, '.')
from tests import test_module
from bardolph.controller import i_controller
from bardolph.controller.color_matrix import ColorMatrix
from bardolph.controller.script_job import ScriptJob
from bardolph.controller.snapshot import ScriptSnapshot
from bardolph.controller import light_set
from bardolph.fakes import fake_light_api
from bardolph.fakes.fake_light_api import LightType
from bardolph.lib.injection import provide


def fail(msg):
    print('FAIL:', msg)
    sys.exit(1)


test_module.configure()
fake_light_api.using((
    ('plain', 'g', 'l'),
    ('strip', 'g', 'l', LightType.MULTI_ZONE, 16),
    ('tile', 'g', 'l', LightType.MATRIX, 3, 4),
)).configure()
light_set.configure()
lights = provide(i_controller.LightSet)
rnd = random.Random(18)


def rcolor():
    return [rnd.randrange(65536) for _ in range(4)]


def scramble():
    lights.get_light('plain').set_color(rcolor(), 0)
    strip = lights.get_light('strip')
    for z in range(16):
        strip.set_zone_colors(z, z + 1, rcolor(), 0)
    tile = lights.get_light('tile')
    tile.set_matrix(ColorMatrix.new_from_iterable(
        3, 4, [rcolor() for _ in range(12)]), 0)


def state():
    return copy.deepcopy((
        lights.get_light('plain').get_color(),
        lights.get_light('strip').get_zone_colors(),
        lights.get_light('tile').get_matrix().get_colors()))


scramble()
captured = state()
try:
    text = ScriptSnapshot().generate(None).text
except Exception as ex:
    fail('capture raised {!r}'.format(ex))
job = ScriptJob.from_string(text)
if job.program is None:
    fail('capture script does not compile: {}'.format(job.compile_errors))
scramble()
if state() == captured:
    fail('test error: scramble did not change the state')
job.execute()
if state() != captured:
    fail('replay did not restore the captured state')
print('ok')
sys.exit(0)
