# C20: a request for a manifest path starts the script the manifest lists,
# i.e. <configured script_path>/<file_name>.
import sys, os, tempfile, time, logging
sys.path.insert(0, '/tmp/wm-M12')
os.chdir('/tmp/wm-M12')
import bardolph
assert bardolph.__file__.startswith('/tmp/wm-M12')

from bardolph.lib import injection, settings, log_config
from bardolph.fakes import fake_clock, fake_light_api
from bardolph.controller import light_set, i_controller
from bardolph.lib import std_out_output
from bardolph.runtime import runtime_module
from bardolph.lib.injection import provide

import atexit, shutil
tmp = tempfile.mkdtemp(prefix='m0091_', dir='/tmp/wm-M12/mutants')
atexit.register(shutil.rmtree, tmp, True)
with open(os.path.join(tmp, 'x.ls'), 'w') as f:
    f.write('units raw hue 1 saturation 2 brightness 3 kelvin 4 duration 5 '
            'set "light_1"\n')

injection.configure()
settings.using({
    'log_level': logging.CRITICAL, 'log_to_console': True,
    'single_light_discover': True, 'use_fakes': True, 'sleep_time': 0.01,
    'manifest_file_name': None,
    'script_path': tmp,
}).configure()
log_config.configure()
fake_clock.configure()
fake_light_api.using_small_set().configure()
light_set.configure()
std_out_output.configure()
runtime_module.configure()

from web.web_app import WebApp, ScriptControl
app = WebApp()
ctl = ScriptControl('x.ls', path='x')
app._scripts['x'] = ctl
app.queue_script(app.get_script_control('x'))
deadline = time.time() + 10
while app._jobs.has_jobs() and time.time() < deadline:
    time.sleep(0.01)

light = provide(i_controller.LightSet).get_light('light_1')
calls = light.get_call_list()
print('calls to light_1:', calls)
ok = len(calls) == 1 and calls[0][1] == [1, 2, 3, 4] and calls[0][2] == 5
print('OK' if ok else 'FAIL: the manifest script in the configured '
      'script_path was not run')
sys.exit(0 if ok else 1)
