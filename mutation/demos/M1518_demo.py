# C01: `get "bulb"` on a plain colour bulb must load the bulb's colour into
# the registers, so that the following `set` transmits it.  With the patch
# every non-multizone light is built as a MatrixLight, and `get` refuses to
# read a "multi-color light".
import sys, os, logging, time
sys.path.insert(0, '/tmp/wm-M12')
os.chdir('/tmp/wm-M12')
import bardolph
assert bardolph.__file__.startswith('/tmp/wm-M12')

from lifxlan.errors import WorkflowException
from bardolph.lib import injection, settings, log_config, std_out_output
from bardolph.lib.injection import bind_instance
from bardolph.fakes import fake_clock
from bardolph.controller import i_controller, lifx_lan_api
from bardolph.controller.light_set import LightSet
from bardolph.controller.script_job import ScriptJob
from bardolph.lib.job_control import JobControl
from bardolph.runtime import runtime_module


class Impl:
    # stand-in for a lifxlan device object of a plain bulb; no network
    def __init__(self, label):
        self._label = label
        self.color = [1000, 2000, 3000, 3500]
        self.sent = []
    def get_label(self): return self._label
    def get_group(self): return 'g'
    def get_location(self): return 'l'
    def get_product_features(self):
        return {'color': True, 'multizone': False, 'matrix': False}
    def get_product_name(self): return 'fake bulb'
    def get_color(self): return list(self.color)
    def set_color(self, color, duration, rapid):
        self.sent.append((list(color), duration))
    def req_with_resp(self, *a, **k):
        raise WorkflowException('a bulb has no tile chain')

class Lan:
    def __init__(self): self.impls = [Impl('bulb')]
    def get_lights(self): return self.impls

injection.configure()
settings.using({'default_num_lights': None, 'log_level': logging.CRITICAL,
                'log_to_console': True, 'sleep_time': 0.01}).configure()
log_config.configure()
fake_clock.configure()
std_out_output.configure()
runtime_module.configure()
lan = Lan()
api = lifx_lan_api.LifxLanApi.__new__(lifx_lan_api.LifxLanApi)
api._lifxlan = lan
bind_instance(api).to(i_controller.LightApi)
ls = LightSet()
assert ls.discover() is True
bind_instance(ls).to(i_controller.LightSet)

light = ls.get_light('bulb')
print('bulb built as', type(light).__name__)

job = ScriptJob.from_string(
    'units raw duration 0 get "bulb" brightness 111 set "bulb"')
assert job.program is not None, job.compile_errors
jobs = JobControl()
jobs.add_job(job)
deadline = time.time() + 10
while jobs.has_jobs() and time.time() < deadline:
    time.sleep(0.01)

sent = lan.impls[0].sent
print('sent:', sent)
ok = (sent == [([1000, 2000, 111, 3500], 0)]
      and not isinstance(light, i_controller.MatrixLight))
print('OK' if ok else 'FAIL: get did not read the plain bulb')
sys.exit(0 if ok else 1)
