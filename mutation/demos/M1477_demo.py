"""M1477: TimePattern.__init__ no longer stores _repr, but copy() (executed by
the VM for every `time at ...`) reads it: the VM dies with an AttributeError on
an accepted script and the commands after the time-of-day wait are never sent."""
import sys
sys.path.insert(0, '/tmp/wm-M11')
import bardolph
assert bardolph.__file__.startswith('/tmp/wm-M11/'), bardolph.__file__

import logging
from tests import test_module
from bardolph.controller import i_controller
from bardolph.controller.script_job import ScriptJob
from bardolph.fakes.activity_monitor import Action
from bardolph.lib.injection import provide
from bardolph.lib.time_pattern import TimePattern

test_module.configure()

# A clock whose time-of-day wait returns at once, recording what it was given.
from bardolph.lib import i_lib, injection
waited_for = []
class StubClock(i_lib.Clock):
    def wait_until(self, time_pattern):
        waited_for.append(time_pattern)
injection.bind(StubClock).to(i_lib.Clock)

errors = []
class Grab(logging.Handler):
    def emit(self, record):
        if record.levelno >= logging.ERROR:
            errors.append(record.getMessage())
logging.getLogger().addHandler(Grab())

job = ScriptJob.from_string('time at 12:*5 or 1*:00 on all')
assert job.program is not None, job.compile_errors
job.execute()

ok = True
api = provide(i_controller.LightApi)
if api.get_call_list() != [(Action.SET_POWER, 1, 0)]:
    print('"on all" after the time-of-day wait sent', api.get_call_list())
    ok = False
if errors:
    print('VM internal fault on an accepted script:', errors)
    ok = False
reg_time = waited_for[0] if waited_for else None
if not (isinstance(reg_time, TimePattern) and reg_time.match(12, 35)
        and reg_time.match(13, 0) and not reg_time.match(13, 5)):
    print('the VM did not wait for the pattern; got:', reg_time)
    ok = False
print('OK' if ok else 'PROPERTY C06 (and C01/C11) VIOLATED')
sys.exit(0 if ok else 1)
