# C02: [sqrt x] must return the square root for every x >= 0 (0 <= x < 1 too).
import sys, io, contextlib, logging, math
sys.path.insert(0, '/tmp/wm-M01')
from tests import test_module
from bardolph.controller.script_job import ScriptJob

test_module.configure()
logging.disable(logging.CRITICAL)
job = ScriptJob.from_string(
    'assign a [sqrt 0.25] assign b {[sqrt 0] + 10} assign c [sqrt 4] '
    'println a println b println c')
assert job.program is not None, job.compile_errors
buf = io.StringIO()
with contextlib.redirect_stdout(buf):
    job.execute()
got = [float(x) for x in buf.getvalue().split()]
want = [0.5, 10.0, 2.0]
print('got', got, 'want', want)
sys.exit(0 if got == want else 1)
