import sys, os, io, contextlib, logging
ROOT = os.path.dirname(os.path.dirname(os.path.abspath(__file__)))
sys.path.insert(0, ROOT)
os.chdir(ROOT)
import bardolph
assert os.path.abspath(bardolph.__file__).startswith(ROOT + os.sep), bardolph.__file__
# C20: a /stop-current request stops the current job and answers with the
# action page of the manifest's "stop-current" entry, without raising.
import json, tempfile, types, time

flask = types.ModuleType('flask')
class Blueprint:
    def __init__(self, *a, **k): pass
    def route(self, *a, **k):
        return lambda fn: fn
class _Request:
    headers = {'User-Agent': 'demo'}
flask.Blueprint = Blueprint
flask.request = _Request()
flask.render_template = lambda template, **kw: dict(kw, template=template)
flask.Flask = object
sys.modules['flask'] = flask

from tests import test_module
from bardolph.lib import injection, settings
from bardolph.lib.job_control import Job
logging.disable(logging.CRITICAL)

work = tempfile.mkdtemp()
os.mkdir(os.path.join(work, 'web'))
json.dump([
    {'file_name': 'a.ls', 'background': '#000', 'color': '#fff'},
    {'file_name': '', 'path': 'stop-current', 'title': 'Stop <now>',
     'background': 'Maroon', 'color': 'White'}],
    open(os.path.join(work, 'web', 'manifest.json'), 'w'))
os.chdir(work)

test_module.configure()
from web import front_end, i_web, web_app
app = web_app.WebApp()
injection.bind_instance(app).to(i_web.WebApp)

class Spin(Job):
    def __init__(self):
        self.keep, self.stopped = True, False
    def execute(self):
        limit = time.time() + 5
        while self.keep and time.time() < limit:
            time.sleep(0.005)
    def request_stop(self):
        self.keep, self.stopped = False, True

job = Spin()
app._jobs.add_job(job, 'a')
time.sleep(0.05)
try:
    page = front_end.fe.stop_current()
    error = None
except Exception as ex:
    page, error = None, ex
job.keep = False
print('job stop requested:', job.stopped)
print('page:', page, 'error:', repr(error))
ok = (error is None and job.stopped and page['template'] == 'action.html'
      and page['script'].path == 'stop-current'
      and page['script'].title == 'Stop &lt;now&gt;'
      and page['message'] == 'Requested')
sys.exit(0 if ok else 1)
