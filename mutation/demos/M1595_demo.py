#!/venv/bin/python
"""
C06: "Every accepted script is executable: the loader and virtual machine
never hit an internal fault on it"  (and C07: every colour component handed to
a light is an integer 0..65535 "whatever the register contents").

A numeric literal of more than 308 digits lexes to float infinity, so
{BIG - BIG} is NaN.  The script below is accepted by the compiler.  It puts NaN
into a colour register and then issues `set all`, `on all` and a final
`set all`.  On the clean tree NaN is clamped like every other out-of-range
value (max(0, nan) == 0), all three commands reach the lights with
protocol-range integers, and nothing is logged.  Exit 0 in that case; exit 1 if
the machine faults ("Machine stopped due to ...") or a command is lost.
"""
import logging
import sys
import unittest

sys.path.insert(0, '/tmp/wm-M22')
import bardolph
assert bardolph.__file__.startswith('/tmp/wm-M22'), bardolph.__file__

from tests import test_module
from tests.script_runner import ScriptRunner
from bardolph.controller import i_controller
from bardolph.controller.script_job import ScriptJob
from bardolph.fakes.activity_monitor import Action
from bardolph.lib.injection import provide

UNITS = 'rgb'
REG = 'red'

BIG = '1' + '0' * 400 + '.0'
SCRIPT = """
    units {units}
    assign x {{{big} - {big}}}
    green 20 blue 30 kelvin 2700 duration 1
    {reg} x
    set all
    on all
    {reg} 7 set all
""".format(units=UNITS, reg=REG, big=BIG)


class _Errors(logging.Handler):
    def __init__(self):
        super().__init__(logging.ERROR)
        self.messages = []

    def emit(self, record):
        self.messages.append(record.getMessage())


test_module.configure()
errors = _Errors()
logging.getLogger().addHandler(errors)

job = ScriptJob.from_string(SCRIPT)
if job.program is None:
    print('script was rejected, demo does not apply:', job.compile_errors)
    sys.exit(2)

ScriptRunner(unittest.TestCase()).run_script(SCRIPT, max_waits=500)
calls = provide(i_controller.LightApi).get_call_list()
print('commands sent to all lights:', calls)
print('errors logged:', errors.messages)

ok = True
if errors.messages:
    print('FAIL: the VM hit an internal fault on an accepted script')
    ok = False
kinds = [call[0] for call in calls]
if kinds != [Action.SET_COLOR, Action.SET_POWER, Action.SET_COLOR]:
    print('FAIL: expected set, on, set - got', kinds)
    ok = False
for call in calls:
    if call[0] is Action.SET_COLOR:
        for comp in call[1]:
            if not (isinstance(comp, int) and 0 <= comp <= 65535):
                print('FAIL: component not a protocol integer:', comp)
                ok = False
print('OK' if ok else 'FAILED')
sys.exit(0 if ok else 1)
