import os, sys
ROOT = os.path.dirname(os.path.dirname(os.path.abspath(__file__)))
sys.path.insert(0, ROOT)
os.chdir(ROOT)
import warnings; warnings.simplefilter("ignore")
def fail(msg):
    print("FAIL:", msg); sys.exit(1)

import time
from tests import test_module
from bardolph.controller import i_controller
from bardolph.controller.script_job import ScriptJob
from bardolph.fakes.activity_monitor import Action
from bardolph.lib.injection import provide
from bardolph.lib.job_control import JobControl
test_module.configure()
job = ScriptJob.from_string('units rgb red 60 green 60 blue 60 kelvin 2700 duration 0 set "Top"')
assert job.program is not None
jobs = JobControl(); jobs.add_job(job)
while jobs.has_jobs():
    time.sleep(0.01)
top = [l for l in provide(i_controller.LightApi).get_lights() if l.get_name() == "Top"][0]
calls = [c for c in top.get_call_list() if c[0] is Action.SET_COLOR]
print(calls)
expected = round(0.6 * 65535)   # 39321
if calls[-1][1][2] != expected:
    fail("rgb 60/60/60 sent brightness %s, exact value is %s" % (calls[-1][1][2], expected))
print("OK")
