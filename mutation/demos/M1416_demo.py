"""M1416 / C12: discover() reports failure exactly when the discovery cannot
complete: a discovery in which every request succeeds reports success (True),
one whose light query fails reports failure (False) and keeps the old lights."""
import os, sys
sys.path.insert(0, os.path.join(os.path.dirname(os.path.abspath(__file__)), '..'))
os.chdir(os.path.join(os.path.dirname(os.path.abspath(__file__)), '..'))
import logging
logging.disable(logging.CRITICAL)
from bardolph.controller import i_controller
from bardolph.controller.light_set import LightSet
from bardolph.fakes import fake_light
from bardolph.lib import injection, settings
from bardolph.lib.injection import bind_instance


class Api(i_controller.LightApi):
    def __init__(self):
        self.fail = False
        self.lights = [fake_light.Light('b', 'g', 'l'),
                       fake_light.Light('a', 'g', 'l')]
    def get_lights(self):
        if self.fail:
            raise i_controller.LightException('network down')
        return self.lights

injection.configure()
settings.using({'single_light_discover': True, 'use_fakes': True}).configure()
api = Api()
bind_instance(api).to(i_controller.LightApi)

light_set = LightSet()
status = 0
ok = light_set.discover()
if ok is not True:
    print('FAIL: successful discovery reported', ok)
    status = 1
api.fail = True
bad = light_set.discover()
if bad is not False or list(light_set.get_light_names()) != ['a', 'b']:
    print('FAIL: failed discovery reported', bad,
          list(light_set.get_light_names()))
    status = 1
if status == 0:
    print('OK')
sys.exit(status)
