# Demo for M0572 (C13): expiry removes exactly the lights older than light_gc_time.
import os, sys
ROOT = os.path.dirname(os.path.dirname(os.path.abspath(__file__)))
os.chdir(ROOT)
sys.path.insert(0, ROOT)
import warnings; warnings.simplefilter("ignore")
import bardolph
assert bardolph.__file__.startswith(ROOT), bardolph.__file__


class StubImpl:
    """Stands in for the lifxlan device object (no network)."""
    def __init__(self, label, features):
        self.label, self.features, self.calls = label, features, []
    def get_label(self): return self.label
    def get_group(self): return "g"
    def get_location(self): return "l"
    def get_product_features(self): return self.features
    def get_product_name(self): return "stub"
    def set_color(self, *args): self.calls.append(("set_color",) + args)
    def set_power(self, *args): self.calls.append(("set_power",) + args)
    def set_zone_color(self, *args): self.calls.append(("set_zone_color",) + args)
    def fire_and_forget(self, msg_type, payload, **kw):
        self.calls.append(("fire_and_forget", msg_type.__name__, payload))


class StubApi:
    def __init__(self, lights): self.lights = lights
    def get_lights(self): return self.lights
    def set_color_all_lights(self, *_): pass
    def set_power_all_lights(self, *_): pass


def install(lights):
    from tests import test_module
    from bardolph.controller import i_controller, light_set
    from bardolph.lib.injection import bind_instance
    test_module.configure()
    bind_instance(StubApi(lights)).to(i_controller.LightApi)
    light_set.configure()


def run(script):
    from bardolph.controller.script_job import ScriptJob
    job = ScriptJob.from_string(script)
    assert job.program is not None, job.compile_errors
    job.execute()


def fail(msg):
    print("FAIL:", msg)
    sys.exit(1)

import time
from bardolph.controller import i_controller, lifx_lan_light, light
from bardolph.lib.injection import provide

real_time = time.time
offset = [0.0]
time.time = lambda: real_time() + offset[0]

old = light.Light('old', 'g1', 'l1')
offset[0] = 1000.0
young = lifx_lan_light.Light(StubImpl('young', {}))
install([old, young])        # settings: light_gc_time defaults to 1200 s
light_set = provide(i_controller.LightSet)

def state():
    return (list(light_set.get_light_names()),
            {g: list(light_set.get_group_lights(g))
             for g in light_set.get_group_names()})

light_set._garbage_collect()         # ages: old 1000 s, young 0 s
print(state())
if state() != (['old', 'young'], {'g': ['young'], 'g1': ['old']}):
    fail('lights younger than the 1200 s limit were expired')
offset[0] = 1500.0                   # ages: old 1500 s, young 500 s
light_set._garbage_collect()
print(state())
if state() != (['young'], {'g': ['young']}):
    fail('expected exactly "old" to be expired')
print('OK')
sys.exit(0)
