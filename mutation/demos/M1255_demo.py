import sys; sys.path.insert(0, "/tmp/wm-M07")
# C01: set/on on a named light, for all populations of named lights -- here a
# light whose name is a single character.
import bardolph; assert bardolph.__file__.startswith("/tmp/wm-M07"), bardolph.__file__
from tests import test_module
from bardolph.controller import i_controller, light_set
from bardolph.controller.script_job import ScriptJob
from bardolph.fakes import fake_light_api
from bardolph.fakes.activity_monitor import Action
from bardolph.lib.injection import provide

test_module.configure()
fake_light_api.using((('A', 'G', 'L'), ('BB', 'G', 'L'))).configure()
light_set.configure()
job = ScriptJob.from_string(
    'units raw hue 1 saturation 2 brightness 3 kelvin 4 duration 5 set "A" on "A"')
if job.program is None:
    print('FAIL: valid script using light "A" rejected:', job.compile_errors)
    sys.exit(1)
job.execute()
calls = {l.get_name(): l.get_call_list()
         for l in provide(i_controller.LightApi).get_lights()}
expect = {'A': [(Action.SET_COLOR, [1, 2, 3, 4], 5), (Action.SET_POWER, 1, 5)],
          'BB': []}
if calls != expect:
    print("FAIL:", calls); sys.exit(1)
print("ok")
