# Demo for M0562 (C07/C15): every colour of a transmitted matrix is a protocol-range integer equal to the converted register colour.
import os, sys
ROOT = os.path.dirname(os.path.dirname(os.path.abspath(__file__)))
os.chdir(ROOT)
sys.path.insert(0, ROOT)
import warnings; warnings.simplefilter("ignore")
import bardolph
assert bardolph.__file__.startswith(ROOT), bardolph.__file__


class StubImpl:
    """Stands in for the lifxlan device object (no network)."""
    def __init__(self, label, features):
        self.label, self.features, self.calls = label, features, []
    def get_label(self): return self.label
    def get_group(self): return "g"
    def get_location(self): return "l"
    def get_product_features(self): return self.features
    def get_product_name(self): return "stub"
    def set_color(self, *args): self.calls.append(("set_color",) + args)
    def set_power(self, *args): self.calls.append(("set_power",) + args)
    def set_zone_color(self, *args): self.calls.append(("set_zone_color",) + args)
    def fire_and_forget(self, msg_type, payload, **kw):
        self.calls.append(("fire_and_forget", msg_type.__name__, payload))


class StubApi:
    def __init__(self, lights): self.lights = lights
    def get_lights(self): return self.lights
    def set_color_all_lights(self, *_): pass
    def set_power_all_lights(self, *_): pass


def install(lights):
    from tests import test_module
    from bardolph.controller import i_controller, light_set
    from bardolph.lib.injection import bind_instance
    test_module.configure()
    bind_instance(StubApi(lights)).to(i_controller.LightApi)
    light_set.configure()


def run(script):
    from bardolph.controller.script_job import ScriptJob
    job = ScriptJob.from_string(script)
    assert job.program is not None, job.compile_errors
    job.execute()


def fail(msg):
    print("FAIL:", msg)
    sys.exit(1)

from bardolph.controller import lifx_lan_light

impl = StubImpl('M', {'matrix': True})
install([lifx_lan_light.MatrixLight(impl, 2, 3)])
run('units raw hue 70000 saturation 100.4 brightness -5 kelvin 3500 '
    'set default '
    'hue 1 saturation 2 brightness 3 kelvin 4 duration 7 '
    'set "M" row 1 column 0 1')
sent = [c for c in impl.calls if c[0] == 'fire_and_forget']
if len(sent) != 1:
    fail('expected exactly one matrix transmission, got {}'.format(impl.calls))
colors = sent[0][2]['colors']
print(colors)
dflt, stage = [65535, 100, 0, 3500], [1, 2, 3, 4]
expected = [dflt, dflt, dflt, stage, stage, dflt]
for color in colors:
    if (not isinstance(color, list) or len(color) != 4 or not all(
            isinstance(x, int) and 0 <= x <= 65535 for x in color)):
        fail('cell colour {!r} is not four integers in 0..65535'.format(color))
if colors != expected:
    fail('expected {}'.format(expected))
print('OK')
sys.exit(0)
