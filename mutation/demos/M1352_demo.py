"""
M1352: TextSnapshot.start_multizone formats '{:>61}' with (get_power() and 0). A multizone light that
does not answer get_power (retry gives None) makes that None -> TypeError on /status.
Exits 0 when GET /status renders, 1 when it raises.
"""
import sys
sys.path.insert(0, '/tmp/wm-M23')
import bardolph
assert bardolph.__file__.startswith('/tmp/wm-M23'), bardolph.__file__

import logging
import tempfile
import traceback
import types

# --- stub flask (not installed): routes are no-ops, a "template" just
# stringifies everything it is given, as Jinja would when rendering.
flask = types.ModuleType('flask')
class Blueprint:
    def __init__(self, *args, **kwargs): pass
    def route(self, *args, **kwargs):
        return lambda fn: fn
def render_template(name, **kwargs):
    return '\n'.join(
        [name] + ['{}={}'.format(k, v) for k, v in sorted(kwargs.items())])
class _Request:
    headers = {'User-Agent': 'demo'}
flask.Blueprint = Blueprint
flask.render_template = render_template
flask.request = _Request()
sys.modules['flask'] = flask

import lifxlan
from lifxlan.errors import WorkflowException

from bardolph.controller import lifx_lan_api, light_set
from bardolph.lib import clock, injection, log_config, settings, std_out_output
from bardolph.runtime import runtime_module


class Device:
    """Stub lifxlan device. kind: 'plain' | 'mz' | 'matrix'."""
    def __init__(self, name, kind='plain', answers=True):
        self.name, self.kind, self.answers = name, kind, answers
    def get_label(self): return self.name
    def get_group(self): return 'Group'
    def get_location(self): return 'Home'
    def get_product_name(self): return 'stub'
    def get_product_features(self):
        return {'multizone': self.kind == 'mz',
                'matrix': self.kind == 'matrix'}
    def _check(self):
        if not self.answers:
            raise WorkflowException('no answer from ' + self.name)
    def get_color(self): self._check(); return [100, 200, 300, 3500]
    def get_power(self): self._check(); return 65535
    def get_color_zones(self, first=None, last=None):
        self._check(); return [[1, 2, 3, 4]] * 3
    def req_with_resp(self, req, resp, payload=None):
        if resp.__name__ == 'StateDeviceChain':
            return types.SimpleNamespace(
                start_index=0, tile_devices=[{'width': 2, 'height': 2}])
        self._check()
        return types.SimpleNamespace(colors=[[1, 2, 3, 4]] * 4)


class StubLan:
    devices = []
    def __init__(self, num_lights=None): pass
    def get_lights(self): return StubLan.devices


def configure(devices):
    StubLan.devices = devices
    lifxlan.LifxLAN = StubLan          # no network
    injection.configure()
    settings.using({
        'log_level': logging.CRITICAL, 'log_to_console': True,
        'single_light_discover': True, 'use_fakes': False,
        'manifest_file_name': None,
        'script_path': tempfile.mkdtemp()}).configure()
    log_config.configure()
    clock.configure()
    std_out_output.configure()
    lifx_lan_api.configure()           # the real LifxLanApi / lifx_lan_light
    light_set.configure()
    runtime_module.configure()
    from web import i_web, web_app
    injection.bind_instance(web_app.WebApp()).to(i_web.WebApp)


def main():
    configure([Device('Lamp'), Device('Strip', 'mz', answers=False)])
    from web import front_end
    try:
        page = front_end.status()      # the view function behind /status
    except Exception:
        traceback.print_exc()
        print('FAIL: the status page raised (C20)')
        return 1
    assert 'status.html' in page and 'Strip' in page, page
    print('ok: status page rendered')
    return 0


if __name__ == '__main__':
    sys.exit(main())
