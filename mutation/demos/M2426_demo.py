"""
C15 demo: `set L zone a b` must colour zones a..b of L.  The real LIFX-LAN
adapter (bardolph.controller.lifx_lan_api / lifx_lan_light) is driven with
stubbed lifxlan devices (no network): one plain bulb and one multizone strip.
The zone command must reach the strip exactly once with the colour a plain
`set` would send.
Exit 0 = property holds, 1 = violated.
"""
import logging
import os
import sys

sys.path.insert(0, os.getcwd())

import lifxlan

from bardolph.controller import i_controller, lifx_lan_api
from bardolph.controller.light_set import LightSet
from bardolph.controller.script_job import ScriptJob
from bardolph.fakes import fake_clock
from bardolph.lib import injection, log_config, settings, std_out_output
from bardolph.lib.injection import bind_instance
from bardolph.runtime import runtime_module


class StubDevice:
    def __init__(self, label, features, zones=0):
        self.label, self.features = label, features
        self.zones = [[0, 0, 0, 3500] for _ in range(zones)]
        self.calls = []

    def get_label(self): return self.label
    def get_group(self): return 'G'
    def get_location(self): return 'L'
    def get_product_features(self): return self.features
    def get_product_name(self): return 'stub'
    def get_color(self): return [0, 0, 0, 3500]
    def get_power(self): return 0

    def set_color(self, color, duration, rapid):
        self.calls.append(('set_color', list(color), duration))

    def set_power(self, power, duration, rapid):
        self.calls.append(('set_power', power, duration))

    def get_color_zones(self, first=None, last=None):
        return self.zones

    def set_zone_color(self, first, last, color, duration):
        self.calls.append(('set_zone_color', first, last, list(color), duration))


class StubLan:
    devices = []

    def __init__(self, num_lights=None):
        pass

    def get_lights(self):
        return StubLan.devices


def main():
    injection.configure()
    settings.using({
        'log_level': logging.CRITICAL, 'log_to_console': True,
        'single_light_discover': True}).configure()
    log_config.configure()
    fake_clock.configure()
    std_out_output.configure()
    runtime_module.configure()

    bulb = StubDevice('Bulb', {'multizone': False, 'matrix': False})
    strip = StubDevice('Strip', {'multizone': True, 'matrix': False}, zones=8)
    StubLan.devices = [bulb, strip]
    lifxlan.LifxLAN = StubLan
    lifx_lan_api.configure()

    light_set = LightSet()
    try:
        result = light_set.discover()
    except Exception as ex:
        print('FAIL: discover() raised', repr(ex))
        print('C15 violated')
        return 1
    bind_instance(light_set).to(i_controller.LightSet)

    ok = True
    if result is not True or list(light_set.get_light_names()) != [
            'Bulb', 'Strip']:
        ok = False
        print('FAIL: discover ->', result, list(light_set.get_light_names()))

    job = ScriptJob.from_string(
        'units raw hue 100 saturation 200 brightness 300 kelvin 400 '
        'duration 0 set "Strip" zone 2 5 set "Bulb"')
    job.execute()
    if not (len(strip.calls) == 1
            and strip.calls[0][0] == 'set_zone_color'
            and strip.calls[0][1] == 2
            and strip.calls[0][3] == [100, 200, 300, 400]):
        ok = False
        print('FAIL: strip got', strip.calls)
    if bulb.calls != [('set_color', [100, 200, 300, 400], 0)]:
        ok = False
        print('FAIL: bulb got', bulb.calls)
    print('OK' if ok else 'C15 violated')
    return 0 if ok else 1


if __name__ == '__main__':
    sys.exit(main())
