"""C19: printf with a one-character format string must compile and print it."""
import io, sys, contextlib
sys.path.insert(0, '.')
from tests import test_module
from bardolph.controller.script_job import ScriptJob

test_module.configure()
job = ScriptJob.from_string('printf "x"\nprintf "{}" 7\nprintln')
if job.program is None:
    print('FAIL: printf "x" rejected:', job.compile_errors)
    sys.exit(1)
buf = io.StringIO()
with contextlib.redirect_stdout(buf):
    job.execute()
out = buf.getvalue()
if out != 'x7\n':
    print('FAIL: output', repr(out))
    sys.exit(1)
print('ok', repr(out))
sys.exit(0)
