import sys
sys.path.insert(0, '/tmp/wm-M16')
import bardolph
assert bardolph.__file__.startswith('/tmp/wm-M16/'), bardolph.__file__
# C20: a request for an unlisted path starts nothing (and the pages render
# without error). Configuration with no manifest ('manifest_file_name': None,
# explicitly supported by _load_manifest): _scripts is then only ever set by
# the constructor line the patch deletes.
import types
flask = types.ModuleType('flask')
class _Blueprint:
    def __init__(self, *a, **k): pass
    def route(self, *a, **k): return lambda fn: fn
flask.Blueprint = _Blueprint
rendered = []
def render_template(name, **kw):
    rendered.append((name, kw)); return name
flask.render_template = render_template
class _Req: headers = {'User-Agent': 'desktop'}
flask.request = _Req()
sys.modules['flask'] = flask

import logging
from bardolph.lib import injection, settings
from bardolph.controller import light_module
from bardolph.runtime import runtime_module
from web import web_app, i_web, front_end

injection.configure()
settings.using({'manifest_file_name': None, 'use_fakes': True,
                'single_light_discover': True, 'sleep_time': 0.01,
                'log_level': logging.ERROR, 'log_to_console': True}).configure()
light_module.configure()
runtime_module.configure()
app = web_app.WebApp()
injection.bind_instance(app).to(i_web.WebApp)

bad = 0
try:
    assert app.get_script_control('nothing-here') is None
    assert app.get_script_list() == []
    assert app.stop_script('nothing-here') is False
    assert front_end.fe.run_script('nothing-here') == 'index.html'
    assert front_end.fe.index() == 'index.html'
    print('requests for unlisted paths start nothing, pages render')
except Exception as ex:
    print('request failed:', repr(ex))
    bad = 1
sys.exit(bad)
