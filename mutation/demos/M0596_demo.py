"""M0596 / C18: replaying a captured snapshot must restore every zone of a multizone light."""
import os, sys
sys.path.insert(0, os.path.join(os.path.dirname(os.path.abspath(__file__)), '..'))
os.chdir(os.path.join(os.path.dirname(os.path.abspath(__file__)), '..'))
import logging
from bardolph.controller import i_controller, light_set
from bardolph.controller.script_job import ScriptJob
from bardolph.controller.snapshot import ScriptSnapshot
from bardolph.fakes import fake_clock, fake_light_api
from bardolph.fakes.fake_light_api import LightType
from bardolph.lib import injection, log_config, settings, std_out_output
from bardolph.lib.injection import provide
from bardolph.runtime import runtime_module

injection.configure()
settings.using({'log_level': logging.CRITICAL, 'log_to_console': True,
                'single_light_discover': True, 'use_fakes': True}).configure()
log_config.configure()
fake_clock.configure()
fake_light_api.using((
    ('Plain', 'g', 'l'),
    ('Strip', 'g', 'l', LightType.MULTI_ZONE, 8),
)).configure()
light_set.configure()
std_out_output.configure()
runtime_module.configure()

lights = provide(i_controller.LightSet)
strip = lights.get_light('Strip')
captured = [[1000 * i + 1, 2000 * i + 2, 3000 * i + 3, 2500 + i]
            for i in range(8)]
strip._zone_colors = [c.copy() for c in captured]

script = ScriptSnapshot().generate(None).text

# Different state at replay time.
strip._zone_colors = [[7, 7, 7, 7] for _ in range(8)]

job = ScriptJob.from_string(script)
if job.program is None:
    print('FAIL: captured script does not compile:', job.compile_errors)
    sys.exit(1)
job.execute()
if strip._zone_colors != captured:
    print('FAIL: zones not restored:', strip._zone_colors)
    print(script)
    sys.exit(1)
print('OK')
sys.exit(0)
