"""
C15 / C02 demo.  [cycle 0] is documented to be 0 (values already in 0..360 are
returned unchanged, e.g. [cycle 355] = 355).  Used as a row index given by an
expression, `set "Candle" row [cycle 0] column 1` must transmit the matrix
once with cell (0, 1) carrying the colour, and the script must carry on with
the statements that follow.  Also `print [cycle 0]` must print the text "0",
just as `print [cycle 355]` prints "355".
Exit 0 = property holds, 1 = violated.
"""
import os
import sys

sys.path.insert(0, os.getcwd())

from tests import test_module
from bardolph.controller import i_controller
from bardolph.controller.script_job import ScriptJob
from bardolph.fakes.activity_monitor import Action
from bardolph.lib.injection import provide


def main():
    test_module.configure()
    output = test_module.replace_print()
    job = ScriptJob.from_string('''
        units raw duration 0
        hue 100 saturation 200 brightness 300 kelvin 400
        set "Candle" row [cycle 0] column 1
        on "Top"
        print [cycle 355]
        print [cycle 0]
    ''')
    if job.program is None:
        print('FAIL: compile', job.compile_errors)
        return 1
    job.execute()

    light_set = provide(i_controller.LightSet)
    candle = light_set.get_light('Candle')
    top = light_set.get_light('Top')
    ok = True
    sets = [c for c in candle.get_call_list() if c[0] is Action.SET_MATRIX]
    if len(sets) != 1:
        ok = False
        print('FAIL: matrix transmitted {} times'.format(len(sets)))
    elif candle.get_matrix().matrix[0][1] != [100, 200, 300, 400]:
        ok = False
        print('FAIL: cell (0,1) is', candle.get_matrix().matrix[0][1])
    if [c[0] for c in top.get_call_list()] != [Action.SET_POWER]:
        ok = False
        print('FAIL: statement after the matrix command did not run:',
              top.get_call_list())
    printed = [str(x) for x in output.get_objects()]
    if printed != ['355', '0']:
        ok = False
        print('FAIL: printed', printed, 'expected ["355", "0"]')
    print('OK' if ok else 'C15/C02 violated')
    return 0 if ok else 1


if __name__ == '__main__':
    sys.exit(main())
