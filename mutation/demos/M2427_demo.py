# shared set-up for the web demos: stub flask, fake lights, temp manifest
import json, logging, os, sys, tempfile, time, types
ROOT = os.path.dirname(os.path.dirname(os.path.abspath(__file__)))
sys.path.insert(0, ROOT)
import warnings; warnings.simplefilter("ignore")

def finish(code):
    sys.stdout.flush(); os.chdir(ROOT); shutil.rmtree(work, ignore_errors=True); os._exit(code)

def fail(msg):
    print("FAIL:", msg); finish(1)

flask = types.ModuleType("flask")
class Blueprint:
    def __init__(self, *a, **k): pass
    def route(self, *a, **k):
        return lambda fn: fn
class _Req:
    headers = {"User-Agent": "demo"}
flask.Blueprint = Blueprint
flask.request = _Req()
flask.render_template = lambda template, **kw: dict(kw, template=template)
sys.modules["flask"] = flask

import shutil
work = tempfile.mkdtemp(prefix="_webtmp", dir=os.path.join(ROOT, "mutants"))
os.makedirs(os.path.join(work, "web")); os.makedirs(os.path.join(work, "scripts"))
with open(os.path.join(work, "web", "manifest.json"), "w") as f:
    json.dump([
        {"file_name": "loop.ls", "background": "b", "color": "c"},
        {"file_name": "other.ls", "background": "b", "color": "c"}], f)
with open(os.path.join(work, "scripts", "loop.ls"), "w") as f:
    f.write('repeat begin on "Top" end\n')
with open(os.path.join(work, "scripts", "other.ls"), "w") as f:
    f.write('on "Top"\n')
os.chdir(work)

from bardolph.controller import light_set
from bardolph.fakes import fake_clock, fake_light_api
from bardolph.lib import injection, log_config, settings, std_out_output
from bardolph.runtime import runtime_module
injection.configure()
settings.using({
    'log_level': logging.CRITICAL, 'log_to_console': True,
    'single_light_discover': True, 'use_fakes': True,
    'manifest_file_name': 'manifest.json', 'script_path': 'scripts'}).configure()
log_config.configure(); fake_clock.configure(); fake_light_api.configure()
light_set.configure(); std_out_output.configure(); runtime_module.configure()
from web import i_web, web_app as web_app_mod
app = web_app_mod.WebApp()
injection.bind_instance(app).to(i_web.WebApp)
from web import front_end
fe = front_end.FrontEnd()

def wait_for(cond, secs=5):
    end = time.time() + secs
    while time.time() < end:
        if cond():
            return True
        time.sleep(0.01)
    return False

def cleanup():
    app._jobs.clear_queue(); app._jobs.stop_current(); app._jobs.stop_background()
    wait_for(lambda: not app._jobs.has_jobs())

# ---- the check ----
fe.run_script("loop")
if not wait_for(lambda: app.get_script_control("loop").running):
    fail("loop did not start")
try:
    page = fe.stop_script("loop")
except Exception as ex:
    cleanup(); fail("GET /stop/loop raised %r instead of rendering the action page" % ex)
stopped = wait_for(lambda: not app._jobs.has_jobs(), 3)
cleanup()
if not stopped:
    fail("job not stopped")
if page.get("template") != "action.html" or page["script"].path != "loop" or page["message"] != "Stop Requested":
    fail("wrong page: %s" % page)
print("OK"); finish(0)
