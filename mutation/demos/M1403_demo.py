# C08: the controller must report that it has jobs for as long as a queued job
# has not run yet.  Interleaving forced here: job A has just completed
# (_on_execution_done has cleared the active agent and released the lock) and
# the controller has not yet started job B, which is still in the queue.  A
# client polling has_jobs() at that switch point (as tests/script_runner.py
# does: `while jobs.has_jobs(): sleep`) must still see True.
import sys, threading, time
sys.path.insert(0, '/tmp/wm-M01')
from bardolph.lib.job_control import JobControl, Job

ran = []
gate_a = threading.Event()

class J(Job):
    def __init__(self, name, gate=None):
        self.name, self.gate = name, gate
    def execute(self):
        if self.gate is not None:
            self.gate.wait(5)
        ran.append(self.name)
    def request_stop(self): pass

jc = JobControl()
samples = []
orig = jc._run_next_job
def probed():
    # what another thread would observe at this switch point
    if jc._active_agent is None and len(jc._queue) > 0:
        samples.append((len(jc._queue), jc.has_jobs()))
    orig()
jc._run_next_job = probed

jc.add_job(J('A', gate_a), 'A')
jc.add_job(J('B'), 'B')       # queued behind the running A
assert jc.has_jobs()
gate_a.set()                  # A completes -> window between A and B
for _ in range(500):
    if ran == ['A', 'B'] and jc._active_agent is None:
        break
    time.sleep(0.01)
print('ran', ran, 'samples (queue length, has_jobs) =', samples,
      'final has_jobs', jc.has_jobs())
ok = (ran == ['A', 'B'] and samples and all(flag for _, flag in samples)
      and not jc.has_jobs())
sys.exit(0 if ok else 1)
