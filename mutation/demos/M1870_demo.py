import sys, os, io, contextlib, logging
ROOT = os.path.dirname(os.path.dirname(os.path.abspath(__file__)))
sys.path.insert(0, ROOT)
os.chdir(ROOT)
import bardolph
assert os.path.abspath(bardolph.__file__).startswith(ROOT + os.sep), bardolph.__file__
# C15 (also C18/C01): `set L zone a` with b omitted, followed by an ordinary
# register setting, must colour zone a alone.
from tests import test_module
from bardolph.controller.script_job import ScriptJob
from bardolph.controller import i_controller
from bardolph.fakes.activity_monitor import Action
from bardolph.lib.injection import provide

script = 'units raw\nhue 100 saturation 200 brightness 300 kelvin 400\nset "Strip" zone 2\nhue 500 set "Strip" zone 3 5\n'
test_module.configure()
job = ScriptJob.from_string(script)
if job.program is None:
    print('valid script rejected:', job.compile_errors)
    sys.exit(1)
job.execute()
strip = [l for l in provide(i_controller.LightApi).get_lights() if l.get_name() == 'Strip'][0]
got = strip.get_call_list()
expected = [(Action.SET_ZONE_COLOR, 2, 3, [100, 200, 300, 400], 0),
            (Action.SET_ZONE_COLOR, 3, 6, [500, 200, 300, 400], 0)]
print('got     ', got)
print('expected', expected)
sys.exit(0 if got == expected else 1)
