import sys, os, io, contextlib, logging
ROOT = os.path.dirname(os.path.dirname(os.path.abspath(__file__)))
sys.path.insert(0, ROOT)
os.chdir(ROOT)
import bardolph
assert os.path.abspath(bardolph.__file__).startswith(ROOT + os.sep), bardolph.__file__
# C06: unbalanced braces / parentheses must be rejected with a line-numbered
# message; (C02/C16) a valid call with a `not` argument must be accepted.
import re
from tests import test_module
from bardolph.parser.parse import Parser
logging.disable(logging.CRITICAL)
test_module.configure()
bad = 0
for text in ('hue {(5 ', 'hue {5', 'define x {(1 + 2', 'hue {5 + 3 on all'):
    parser = Parser()
    accepted = bool(parser.parse(text))
    errors = parser.get_errors()
    ok = (not accepted) and re.search(r'Line \d+', errors or '') is not None
    print('{!r}: accepted={} errors={!r} {}'.format(text, accepted, errors, 'ok' if ok else 'WRONG'))
    bad += not ok
text = 'define f with x begin print x end\nf not 1\n'
parser = Parser()
accepted = bool(parser.parse(text))
print('{!r}: accepted={} errors={!r} {}'.format(text, accepted, parser.get_errors(), 'ok' if accepted else 'WRONG'))
bad += not accepted
sys.exit(1 if bad else 0)
