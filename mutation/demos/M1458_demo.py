"""M1458: controller.light.Light.__init__ no longer stores the location.  The
fakes set their own _location, but every real (lifxlan-backed) light inherits
it from here: get_location() raises AttributeError, so LightSet.discover()
raises instead of listing each light under the location it reported."""
import sys
sys.path.insert(0, '/tmp/wm-M11')
import bardolph
assert bardolph.__file__.startswith('/tmp/wm-M11/'), bardolph.__file__

import lifxlan
from bardolph.controller import i_controller, lifx_lan_api, light_set
from bardolph.lib import injection, settings


class StubDevice:
    """Stands in for a lifxlan.Light: answers every request, no network."""
    def __init__(self, label, group, location):
        self._label, self._group, self._location = label, group, location
        self.color = [1, 2, 3, 4]
        self.power = 0
    def get_label(self): return self._label
    def get_group(self): return self._group
    def get_location(self): return self._location
    def get_product_features(self):
        return {'color': True, 'multizone': False, 'matrix': False}
    def get_product_name(self): return 'Stub Bulb'
    def get_color(self): return self.color
    def set_color(self, color, duration=0, rapid=False): self.color = color
    def get_power(self): return self.power
    def set_power(self, power, duration=0, rapid=False): self.power = power


class StubLan:
    devices = []
    def __init__(self, *_): pass
    def get_lights(self): return list(StubLan.devices)


lifxlan.LifxLAN = StubLan
injection.configure()
settings.using({'single_light_discover': True}).configure()
lifx_lan_api.configure()

StubLan.devices = [
    StubDevice('desk', 'Office', 'Work'),
    StubDevice('lamp', 'Living', 'Home'),
    StubDevice('sofa', 'Living', 'Home')]

ok = True
the_set = light_set.LightSet()
try:
    result = the_set.discover()
    if result is not True:
        print('discover() returned', result)
        ok = False
    names = list(the_set.get_location_names())
    if names != ['Home', 'Work']:
        print('location names', names)
        ok = False
    for loc, members in (('Home', ['lamp', 'sofa']), ('Work', ['desk'])):
        got = the_set.get_location_lights(loc)
        if got is None or list(got) != members:
            print('location', loc, 'lists', got, 'expected', members)
            ok = False
    if [l.get_location() for l in the_set.get_lights()].count('Home') != 2:
        print('lights do not report their location')
        ok = False
except Exception as ex:
    print('discover() raised {}: {}'.format(type(ex).__name__, ex))
    ok = False
print('OK' if ok else 'PROPERTY C13 (location membership) / C12 (discovery '
      'never raises) VIOLATED')
sys.exit(0 if ok else 1)
