"""M1070: MatrixLight._get_size reads tile.get(0, 'height'), i.e. the string
'height', instead of the tile's height.  For a 6 x 5 matrix light,
'set "M" row 1 column 2' must transmit all 30 cells once, cell (1, 2) = the
colour, the rest black.  With the patch get_height() is 'height', the VM faults
building the matrix and nothing is transmitted.
Exit 0 = property holds, 1 = violated."""
import sys
sys.path.insert(0, '/tmp/wm-M14')
import bardolph
assert bardolph.__file__.startswith('/tmp/wm-M14/'), bardolph.__file__

# ---- production LifxLanApi on top of stubbed lifxlan devices ----
import logging
import lifxlan

from bardolph.controller import i_controller, lifx_lan_api, light_set
from bardolph.controller.script_job import ScriptJob
from bardolph.fakes import fake_clock
from bardolph.lib import injection, log_config, settings, std_out_output
from bardolph.runtime import runtime_module


class StubDevice:
    def __init__(self, label, features=None, tile=None):
        self.label = label
        self.features = features or {}
        self.tile = tile
        self.calls = []

    def get_label(self): return self.label
    def get_group(self): return 'G'
    def get_location(self): return 'L'
    def get_product_features(self): return self.features
    def get_product_name(self): return 'stub'
    def get_color(self): return [1, 2, 3, 4]
    def get_power(self): return 65535

    def set_color(self, color, duration, rapid):
        self.calls.append(('set_color', list(color), duration, rapid))

    def set_power(self, power, duration, rapid):
        self.calls.append(('set_power', power, duration, rapid))

    def req_with_resp(self, req, resp, payload=None):
        class Chain:
            pass
        chain = Chain()
        chain.tile_devices = [self.tile]
        chain.start_index = 0
        self.calls.append(('req_with_resp', req.__name__))
        return chain

    def fire_and_forget(self, msg_type, payload, num_repeats=1):
        self.calls.append(('fire_and_forget', msg_type.__name__, payload))


def configure(devices):
    class StubLan:
        def __init__(self, num_lights=None):
            pass
        def get_lights(self):
            return devices
    lifxlan.LifxLAN = StubLan

    injection.configure()
    settings.using({
        'log_level': logging.ERROR,
        'log_to_console': True,
        'single_light_discover': True,
        'use_fakes': False
    }).configure()
    log_config.configure()
    fake_clock.configure()
    lifx_lan_api.configure()
    light_set.configure()
    std_out_output.configure()
    runtime_module.configure()


def run(script):
    job = ScriptJob.from_string(script)
    assert job.program is not None, job.compile_errors
    job.execute()

stub = sys.modules[__name__]
# ---- end of stub set-up ----

from bardolph.controller import i_controller
from bardolph.lib.injection import provide

dev = stub.StubDevice('M', {'matrix': True}, {'width': 5, 'height': 6})
stub.configure([dev])
light = provide(i_controller.LightSet).get_light('M')
print('height, width =', repr(light.get_height()), repr(light.get_width()))
stub.run('units raw hue 1 saturation 2 brightness 3 kelvin 4 '
         'set "M" row 1 column 2')
sent = [c for c in dev.calls if c[0] == 'fire_and_forget']
print('transmissions:', len(sent))
ok = light.get_height() == 6 and light.get_width() == 5 and len(sent) == 1
if ok:
    payload = sent[0][2]
    expected = [[0, 0, 0, 0]] * 30
    expected[1 * 5 + 2] = [1, 2, 3, 4]
    ok = (payload['colors'] == expected and payload['height'] == 6
          and payload['width'] == 5)
print('OK' if ok else 'VIOLATION: matrix not transmitted / wrong height')
sys.exit(0 if ok else 1)
