"""
M0403: WebApp.get_script_control: self._scripts.get(path, None)
                               -> self._scripts.get(None, path)

C20: a request for a manifest path p starts the script listed for p, a request
for any other path starts nothing (and renders the index page). With the patch
the dict lookup returns the *path string itself* (None is never a key), so
`script_control.path` raises AttributeError for every request, listed or not.
Exit 0 = property holds, 1 = violated.
"""
# ---- set-up: stub flask, scratch manifest, fake lights ----
import json
import os
import sys
import tempfile
import time
import types

sys.path.insert(0, '/tmp/wm-M13')
import bardolph
assert bardolph.__file__.startswith('/tmp/wm-M13'), bardolph.__file__

# --- stub flask -----------------------------------------------------------
flask = types.ModuleType('flask')
rendered = []


class _Blueprint:
    def __init__(self, *_, **__): pass

    def route(self, *_, **__):
        return lambda fn: fn


class _Request:
    headers = {'User-Agent': 'demo'}


def _render_template(name, **kwargs):
    rendered.append((name, kwargs))
    return name


flask.Blueprint = _Blueprint
flask.Flask = object
flask.render_template = _render_template
flask.request = _Request()
sys.modules['flask'] = flask

from bardolph.controller import i_controller
from bardolph.lib import injection
from tests import test_module


def make_app(manifest, scripts):
    """chdir into a scratch dir holding web/manifest.json and the scripts."""
    root = tempfile.mkdtemp(prefix='webdemo')
    os.mkdir(os.path.join(root, 'web'))
    with open(os.path.join(root, 'web', 'manifest.json'), 'w') as out:
        json.dump(manifest, out)
    for name, text in scripts.items():
        with open(os.path.join(root, name), 'w') as out:
            out.write(text)
    os.chdir(root)
    test_module.configure()
    from web import i_web, web_app
    import web
    assert web.__file__.startswith('/tmp/wm-M13'), web.__file__
    app = web_app.WebApp()
    injection.bind_instance(app).to(i_web.WebApp)
    from web import front_end
    return app, front_end.fe


def wait_idle(app, limit=5.0):
    end = time.time() + limit
    while time.time() < end:
        jobs = app._jobs
        if not jobs.has_jobs() and len(jobs.get_background()) == 0:
            return True
        time.sleep(0.01)
    return False


def light_calls():
    api = injection.provide(i_controller.LightApi)
    return api.get_call_list()

# ---- the demo ----
manifest = [
    {'file_name': 'on-all.ls', 'path': 'on', 'background': '#222',
     'color': 'Linen'},
]
app, fe = make_app(manifest, {'on-all.ls': 'on all\n'})

failures = []
try:
    page = fe.run_script('on')
    wait_idle(app)
    if page != 'action.html':
        failures.append('listed path rendered %r' % (page,))
    if len(light_calls()) != 1:
        failures.append('listed path: light calls %r' % light_calls())
except Exception as ex:
    failures.append('listed path raised %r' % (ex,))

try:
    page = fe.run_script('no-such-script')
    wait_idle(app)
    if page != 'index.html':
        failures.append('unlisted path rendered %r' % (page,))
    if len(light_calls()) != 1:
        failures.append('unlisted path started something')
except Exception as ex:
    failures.append('unlisted path raised %r' % (ex,))

if failures:
    print('VIOLATION:', failures)
    sys.exit(1)
print('ok', light_calls())
sys.exit(0)
