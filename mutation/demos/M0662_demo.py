"""
C15 (and C07) demo: a matrix command transmits the whole matrix once, every
cell being a colour of four integers in 0..65535, converted exactly as a plain
`set` would convert it, stage cells carrying the stage colour and all others
the saved default.  The real LIFX-LAN matrix adapter
(bardolph.controller.lifx_lan_light.MatrixLight) is driven with a stubbed
lifxlan device (no network).
Exit 0 = property holds, 1 = violated.
"""
import logging
import os
import sys

sys.path.insert(0, os.getcwd())

import lifxlan

from bardolph.controller import i_controller, lifx_lan_api
from bardolph.controller.light_set import LightSet
from bardolph.controller.script_job import ScriptJob
from bardolph.fakes import fake_clock
from bardolph.lib import injection, log_config, settings, std_out_output
from bardolph.lib.injection import bind_instance
from bardolph.runtime import runtime_module

HEIGHT, WIDTH = 3, 4


class StubTile:
    def __init__(self, label):
        self.label = label
        self.sent = []

    def get_label(self): return self.label
    def get_group(self): return 'G'
    def get_location(self): return 'L'
    def get_product_features(self): return {'multizone': False, 'matrix': True}
    def get_product_name(self): return 'stub tile'

    def req_with_resp(self, msg_type, resp_type, payload=None):
        class Chain:
            start_index = 0
            tile_devices = [{'width': WIDTH, 'height': HEIGHT}]
        return Chain()

    def fire_and_forget(self, msg_type, payload, num_repeats=1):
        self.sent.append(payload)


class StubLan:
    devices = []

    def __init__(self, num_lights=None):
        pass

    def get_lights(self):
        return StubLan.devices


def main():
    injection.configure()
    settings.using({
        'log_level': logging.CRITICAL, 'log_to_console': True,
        'single_light_discover': True}).configure()
    log_config.configure()
    fake_clock.configure()
    std_out_output.configure()
    runtime_module.configure()

    tile = StubTile('Tile')
    StubLan.devices = [tile]
    lifxlan.LifxLAN = StubLan
    lifx_lan_api.configure()
    light_set = LightSet()
    light_set.discover()
    bind_instance(light_set).to(i_controller.LightSet)

    job = ScriptJob.from_string('''
        duration 0
        hue 90 saturation 25 brightness 10 kelvin 2000 set default
        hue 180 saturation 50 brightness 100 kelvin 2700
        set "Tile" row 1 column 1 2
    ''')
    if job.program is None:
        print('FAIL: compile', job.compile_errors)
        return 1
    job.execute()

    default = [round(90 / 360 * 65535), round(0.25 * 65535),
               round(0.10 * 65535), 2000]
    stage = [round(180 / 360 * 65535), round(0.5 * 65535), 65535, 2700]
    want = [stage if (row == 1 and col in (1, 2)) else default
            for row in range(HEIGHT) for col in range(WIDTH)]

    ok = True
    if len(tile.sent) != 1:
        ok = False
        print('FAIL: matrix transmitted {} times'.format(len(tile.sent)))
    else:
        colors = tile.sent[0]['colors']
        for cell in colors:
            if not (len(cell) == 4 and all(
                    isinstance(x, int) and 0 <= x <= 65535 for x in cell)):
                ok = False
                print('FAIL: cell is not a 4-component 16-bit colour:', cell)
                break
        if colors != want:
            ok = False
            print('FAIL: transmitted cells\n  {}\nexpected\n  {}'.format(
                colors, want))
    print('OK' if ok else 'C15/C07 violated')
    return 0 if ok else 1


if __name__ == '__main__':
    sys.exit(main())
