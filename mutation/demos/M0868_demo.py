import sys
sys.path.insert(0, '/tmp/wm-M16')
import bardolph
assert bardolph.__file__.startswith('/tmp/wm-M16/'), bardolph.__file__
# C06: the compiler must end in accept or a line-numbered rejection, never an
# internal error. "repeat with i in ..." reaches LoopParser._loop_body without
# passing through _pre_loop_as, so _light_var is read before it is assigned.
from tests import test_module
from bardolph.parser.parse import Parser

test_module.configure()
bad = 0
for text in ('repeat with i in "Top" begin print 1 end',
             'repeat with i in "Top" and group "Pole" begin set i end'):
    parser = Parser()
    try:
        ok = parser.parse(text)
        if not ok and 'Line' not in parser.get_errors():
            print('rejected without a line number:', text)
            bad = 1
        print(text, '->', 'accepted' if ok else 'rejected')
    except Exception as ex:
        print('COMPILER CRASH on', repr(text), ':', repr(ex))
        bad = 1
sys.exit(bad)
