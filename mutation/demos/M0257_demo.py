import sys; sys.path.insert(0, "/tmp/wm-M07")
# C11: `time at P1 or P2` must be accepted and match exactly the union.
import bardolph; assert bardolph.__file__.startswith("/tmp/wm-M07"), bardolph.__file__
from tests import test_module
from bardolph.controller.script_job import ScriptJob
from bardolph.vm.vm_codes import Register

test_module.configure()
job = ScriptJob.from_string('time at 12:00 or 13:30')
if job.program is None:
    print("FAIL: valid 'time at 12:00 or 13:30' rejected:", job.compile_errors)
    sys.exit(1)
job.execute()
pat = job.get_machine_state().reg.get_by_enum(Register.TIME)
got = {(h, m) for h in range(24) for m in range(60) if pat.match(h, m)}
if got != {(12, 0), (13, 30)}:
    print("FAIL: matches", sorted(got))
    sys.exit(1)
print("ok")
