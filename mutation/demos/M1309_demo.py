"""M1309 / C20: a manifest entry that is NOT marked run_background is queued
(one at a time, in order); only entries so marked run in the background."""
import json, os, sys, tempfile, threading, time
ROOT = os.path.join(os.path.dirname(os.path.abspath(__file__)), '..')
sys.path.insert(0, ROOT)
import logging
logging.disable(logging.CRITICAL)

tmp = tempfile.mkdtemp()
os.mkdir(os.path.join(tmp, 'web'))
manifest = [
    {'file_name': 'a.ls', 'background': '#111', 'color': '#fff'},
    {'file_name': 'b.ls', 'background': '#111', 'color': '#fff'},
    {'file_name': 'bg.ls', 'background': '#111', 'color': '#fff',
     'run_background': True},
]
with open(os.path.join(tmp, 'web', 'm.json'), 'w') as f:
    json.dump(manifest, f)
os.chdir(tmp)

from bardolph.lib import injection, settings
import web.web_app as web_app_module

started = []
release = {name: threading.Event() for name in ('a.ls', 'b.ls', 'bg.ls')}

class FakeJob:
    def __init__(self, name): self.name = name
    @staticmethod
    def from_file(fname):
        return FakeJob(os.path.basename(fname))
    def execute(self):
        started.append(self.name)
        release[self.name].wait(5)
    def request_stop(self):
        release[self.name].set()

web_app_module.ScriptJob = FakeJob

injection.configure()
settings.using({'manifest_file_name': 'm.json', 'script_path': tmp}).configure()
app = web_app_module.WebApp()

def fail(msg):
    print('FAIL:', msg)
    for ev in release.values():
        ev.set()
    sys.exit(1)

for path in ('a', 'b', 'bg'):
    control = app.get_script_control(path)
    assert control is not None
    app.queue_script(control)
time.sleep(0.3)

jobs = app._jobs
if sorted(started) != ['a.ls', 'bg.ls']:
    fail('expected a (queued, running) and bg (background) started, b waiting;'
         ' started = {}'.format(started))
if [agent.name for agent in jobs.get_queued()] != ['b']:
    fail('b should be waiting in the queue: {}'.format(jobs.get_queued()))
if [agent.name for agent in jobs.get_background()] != ['bg']:
    fail('only bg should be a background job: {}'.format(
        [agent.name for agent in jobs.get_background()]))
release['a.ls'].set()
time.sleep(0.3)
if started.count('b.ls') != 1:
    fail('b should start after a finished: {}'.format(started))
for ev in release.values():
    ev.set()
time.sleep(0.3)
if jobs.has_jobs():
    fail('jobs left over')
print('OK', started)
sys.exit(0)
