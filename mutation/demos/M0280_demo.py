# C07/C15: the colours handed to a matrix light are the staged colours,
# rounded and clamped to 0..65535.
import sys, logging
sys.path.insert(0, '/tmp/wm-M01')
from bardolph.controller import lifx_lan_light
from bardolph.controller.color_matrix import ColorMatrix

logging.disable(logging.CRITICAL)

class Impl:
    def __init__(self): self.sent = []
    def get_label(self): return 'Candle'
    def get_group(self): return 'g'
    def get_location(self): return 'l'
    def get_product_features(self): return {'matrix': True}
    def fire_and_forget(self, msg_type, payload, num_repeats=1):
        self.sent.append(payload)

impl = Impl()
light = lifx_lan_light.MatrixLight(impl, 2, 2)
mat = ColorMatrix.new_from_iterable(
    2, 2, [[1, 2, 3, 4], [100.4, 70000, -5, 2700], [0, 0, 0, 0],
           [65535, 65535, 65535, 9000]])
try:
    light.set_matrix(mat, 0)
except Exception as ex:
    print('set_matrix raised', type(ex).__name__, ex)
    sys.exit(1)
want = [[1, 2, 3, 4], [100, 65535, 0, 2700], [0, 0, 0, 0],
        [65535, 65535, 65535, 9000]]
got = impl.sent[0]['colors'] if impl.sent else None
print('got', got)
sys.exit(0 if len(impl.sent) == 1 and got == want else 1)
