"""C07/C14: a raw colour re-expressed in logical units must convert back to
the same raw colour. Raw hue 0 (and anything below raw 182) must survive."""
import sys, time
sys.path.insert(0, '/tmp/wm-M06')
from tests import test_module
from bardolph.controller import i_controller, units
from bardolph.controller.script_job import ScriptJob
from bardolph.fakes.activity_monitor import Action
from bardolph.lib.injection import provide
from bardolph.lib.job_control import JobControl

bad = []
# 1. direct round trip, exhaustive over hue
for raw_h in range(0, 65536):
    raw = [raw_h, 65535, 32768, 3500]
    back = [round(x) for x in units.logical_to_raw(units.raw_to_logical(raw))]
    if back[0] % 65535 != raw_h % 65535 or back[1:] != raw[1:]:
        bad.append((raw, back))
if bad:
    print('FAIL round trip, {} hues wrong, e.g. {} -> {}'.format(
        len(bad), bad[0][0], bad[0][1]))

# 2. through a script: units switch must not change what the light gets
test_module.configure()
script = 'units raw hue 0 saturation 65535 brightness 65535 kelvin 3500 ' \
         'units logical set "Top"'
job = ScriptJob.from_string(script)
jobs = JobControl()
jobs.add_job(job)
while jobs.has_jobs():
    time.sleep(0.01)
light = provide(i_controller.LightSet).get_light('Top')
calls = light.get_call_list()
print(calls)
expected = [(Action.SET_COLOR, [0, 65535, 65535, 3500], 0)]
if calls != expected:
    print('FAIL: transmitted', calls, 'expected', expected)
    bad.append(calls)
sys.exit(1 if bad else 0)
