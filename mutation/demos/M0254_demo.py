"""C11 (and C01): `time at P1 or P2` is a documented form; it must compile and
wait for a minute matched by P1 or by P2."""
import sys
sys.path.insert(0, '/tmp/wm-M06')
from tests import test_module
from bardolph.parser.parse import Parser
from bardolph.vm.vm_codes import OpCode, Register
from bardolph.vm.machine import Machine

test_module.configure()
script = 'time at 1:00 or 2:30 or *:15'
parser = Parser()
if not parser.parse(script):
    print('FAIL: valid script rejected:', parser.get_errors())
    sys.exit(1)
prog = parser.get_program()
machine = Machine()
machine.run(prog)
pattern = machine.get_state().reg.time
ok = True
for h in range(24):
    for m in range(60):
        want = (h, m) in ((1, 0), (2, 30)) or m == 15
        if bool(pattern.match(h, m)) != want:
            ok = False
            print('FAIL: match({}, {}) = {}'.format(h, m, pattern.match(h, m)))
print('ok' if ok else 'bad')
sys.exit(0 if ok else 1)
