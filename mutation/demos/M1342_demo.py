"""C12 (also C18): discovery must never raise. A multizone device whose every
network request succeeds is discovered through the real LAN wrapper
(lifx_lan_api / lifx_lan_light) sitting on a stubbed lifxlan.LifxLAN; the
capture script for it must then be generated too."""
import sys
sys.path.insert(0, '/tmp/wm-M06')
import lifxlan
from bardolph.lib import injection, settings

ZONES = [[100 * i, 200, 300, 3500] for i in range(8)]

class FakeDevice:
    def get_label(self): return 'Strip'
    def get_group(self): return 'g'
    def get_location(self): return 'l'
    def get_product_features(self): return {'multizone': True}
    def get_product_name(self): return 'LIFX Z'
    def get_color(self): return ZONES[0]
    def get_power(self): return 65535
    def get_color_zones(self, start=None, end=None):
        return ZONES[start:end]

class FakeLan:
    def __init__(self, *_): pass
    def get_lights(self): return [FakeDevice()]

lifxlan.LifxLAN = FakeLan

injection.configure()
settings.using({'single_light_discover': True}).configure()
from bardolph.controller import lifx_lan_api, i_controller
from bardolph.controller.light_set import LightSet
from bardolph.controller.snapshot import ScriptSnapshot
lifx_lan_api.configure()

ls = LightSet()
try:
    result = ls.discover()
except Exception as ex:
    print('FAIL: discover() raised {}: {}'.format(type(ex).__name__, ex))
    sys.exit(1)
print('discover ->', result, list(ls.get_light_names()))
if result is not True or list(ls.get_light_names()) != ['Strip']:
    sys.exit(1)
if ls.get_light('Strip').get_num_zones() != 8:
    print('FAIL: zone count', ls.get_light('Strip').get_num_zones())
    sys.exit(1)
injection.bind_instance(ls).to(i_controller.LightSet)
try:
    text = ScriptSnapshot().generate(None).text
except Exception as ex:
    print('FAIL: capture raised {}: {}'.format(type(ex).__name__, ex))
    sys.exit(1)
if text.count('zone') != 8:
    print('FAIL: capture script lacks zones:\n' + text)
    sys.exit(1)
print('ok')
sys.exit(0)
