#!/venv/bin/python
"""
C20: "the status ... pages render without error".

Serves the /status page of the web front end (flask is stubbed, the lights are
the fakes from tests/test_module.py, which include multizone and matrix lights)
and exits 0 if the page renders and contains every light's name, 1 if the
request raises.
"""
import os
import sys
import types

sys.path.insert(0, '/tmp/wm-M22')
os.chdir('/tmp/wm-M22')
import bardolph
assert bardolph.__file__.startswith('/tmp/wm-M22'), bardolph.__file__

# ---- minimal flask stub ----------------------------------------------------
flask = types.ModuleType('flask')


class Blueprint:
    def __init__(self, *_, **__): pass
    def route(self, *_, **__):
        return lambda fn: fn


class _Request:
    headers = {'User-Agent': 'Mozilla/5.0 (X11; Linux x86_64)'}


def render_template(name, **kwargs):
    # "Render": every value the template is handed has to be printable.
    parts = [name]
    for key, value in kwargs.items():
        if isinstance(value, dict):
            parts.extend('{}={}'.format(k, v) for k, v in value.items())
        else:
            parts.append('{}={}'.format(key, value))
    return '\n'.join(parts)


flask.Blueprint = Blueprint
flask.request = _Request()
flask.render_template = render_template
sys.modules['flask'] = flask
# -----------------------------------------------------------------------------

from tests import test_module
from bardolph.controller import i_controller
from bardolph.lib import injection
from web import front_end, i_web, web_app
assert web_app.__file__.startswith('/tmp/wm-M22'), web_app.__file__

test_module.configure()
injection.bind_instance(web_app.WebApp()).to(i_web.WebApp)

try:
    page = front_end.status()
except Exception as ex:
    print('FAIL: /status raised {}: {}'.format(type(ex).__name__, ex))
    sys.exit(1)

light_set = injection.provide(i_controller.LightSet)
missing = [name for name in light_set.get_light_names() if name not in page]
if missing:
    print('FAIL: status page lacks lights', missing)
    sys.exit(1)
print('OK: /status rendered, {} characters'.format(len(page)))
sys.exit(0)
