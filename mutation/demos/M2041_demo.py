"""C02: built-ins return their documented results; docs/language.rst says
[cycle 360] returns 0 (and [cycle 360.5] = 0.5)."""
import sys
import warnings
warnings.simplefilter('ignore')
sys.path.insert(0, '/tmp/wm-M04')

from tests import test_module
from bardolph.controller.script_job import ScriptJob

test_module.configure()
job = ScriptJob.from_string(
    'assign a [cycle 360]\n'
    'assign b [cycle {180 * 2 + 0.5}]\n'
    'assign c [cycle 355]\n'
    'assign d [cycle 365]\n')
assert job.program is not None, job.compile_errors
job.execute()
stack = job.get_machine_state().call_stack
got = [stack.get_variable(n) for n in 'abcd']
want = [0, 0.5, 355, 5]
print('got', got, 'want', want)
sys.exit(0 if got == want else 1)
