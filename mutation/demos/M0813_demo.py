# C01: printed values and transmitted colours are determined by the register
# values; an unset register is documented to be zero ("Any uninitialized
# values default to zero").  `red` is readable in logical mode.
import sys, os, time
sys.path.insert(0, '/tmp/wm-M12')
os.chdir('/tmp/wm-M12')
import bardolph
assert bardolph.__file__.startswith('/tmp/wm-M12')

from tests import test_module
from bardolph.controller import i_controller
from bardolph.controller.script_job import ScriptJob
from bardolph.lib.injection import provide
from bardolph.lib.job_control import JobControl

test_module.using_small_set().configure()
out = test_module.replace_print()

script = '''
println red
assign x red
hue {x * 90} saturation 50 brightness 50 kelvin 2000 duration 0
set "light_1"
'''
job = ScriptJob.from_string(script)
assert job.program is not None, job.compile_errors
jobs = JobControl()
jobs.add_job(job)
deadline = time.time() + 10
while jobs.has_jobs() and time.time() < deadline:
    time.sleep(0.01)

printed = out.get_objects()
calls = provide(i_controller.LightSet).get_light('light_1').get_call_list()
print('printed:', printed)
print('calls:', calls)
ok = (len(calls) == 1 and calls[0][1][0] == 0
      and len(printed) >= 1 and float(printed[0]) == 0.0)
print('OK' if ok else 'FAIL: uninitialised register red is not 0')
sys.exit(0 if ok else 1)
