"""M1487: features.get(False, 'multizone') is always the truthy string
'multizone', so LifxLanApi builds EVERY real device as a MultizoneLight.
A plain bulb then ignores `get`, accepts zone commands it has no capability
for, and a matrix light refuses its row/column commands."""
import sys
sys.path.insert(0, '/tmp/wm-M11')
import bardolph
assert bardolph.__file__.startswith('/tmp/wm-M11/'), bardolph.__file__

import lifxlan
from lifxlan.msgtypes import GetDeviceChain
from tests import test_module
from bardolph.controller import i_controller, lifx_lan_api, light_set
from bardolph.controller.script_job import ScriptJob
from bardolph.lib.injection import provide


class StubDevice:
    """Stands in for a lifxlan device: answers every request, logs commands."""
    def __init__(self, label, kind, color):
        self._label, self._kind = label, kind
        self.color = list(color)
        self.calls = []
    def get_label(self): return self._label
    def get_group(self): return 'G'
    def get_location(self): return 'L'
    def get_product_features(self):
        return {'color': True,
                'multizone': self._kind == 'multizone',
                'matrix': self._kind == 'matrix'}
    def get_product_name(self): return 'Stub ' + self._kind
    def get_color(self): return self.color
    def set_color(self, color, duration=0, rapid=False):
        self.calls.append(('set_color', list(color), duration))
    def get_power(self): return 0
    def set_power(self, power, duration=0, rapid=False):
        self.calls.append(('set_power', power, duration))
    def get_color_zones(self, first=None, last=None):
        return [[0, 0, 0, 0]] * 8
    def set_zone_color(self, first, last, color, duration=0, *_):
        self.calls.append(('set_zone_color', first, last, list(color)))
    def req_with_resp(self, msg_type, resp_type, payload=None):
        assert msg_type is GetDeviceChain
        class Chain:
            start_index = 0
            tile_devices = [{'width': 2, 'height': 2}]
        return Chain()
    def fire_and_forget(self, msg_type, payload, num_repeats=1):
        self.calls.append(('set_matrix', payload['colors']))


class StubLan:
    devices = []
    def __init__(self, *_): pass
    def get_lights(self): return list(StubLan.devices)


test_module.configure()
lifxlan.LifxLAN = StubLan
lamp = StubDevice('lamp', 'plain', [100, 200, 300, 3500])
sofa = StubDevice('sofa', 'plain', [0, 0, 0, 0])
strip = StubDevice('strip', 'multizone', [0, 0, 0, 0])
tile = StubDevice('tile', 'matrix', [0, 0, 0, 0])
StubLan.devices = [lamp, sofa, strip, tile]
lifx_lan_api.configure()
light_set.configure()

ok = True
the_set = provide(i_controller.LightSet)
kinds = {
    'lamp': (False, False), 'sofa': (False, False),
    'strip': (True, False), 'tile': (False, True)}
for name, (is_mz, is_mat) in kinds.items():
    light = the_set.get_light(name)
    got = (isinstance(light, i_controller.MultizoneLight),
           isinstance(light, i_controller.MatrixLight))
    if got != (is_mz, is_mat):
        print('{}: (multizone, matrix) = {}, expected {}'.format(
            name, got, (is_mz, is_mat)))
        ok = False

job = ScriptJob.from_string('''
    units raw
    get "lamp" set "sofa"
    hue 1 saturation 2 brightness 3 kelvin 4
    set "lamp" zone 0 1
    set "strip" zone 2 3
    set "tile" row 0 column 1
''')
assert job.program is not None, job.compile_errors
job.execute()

expect = {
    'lamp': [],     # a plain bulb must not receive the zone command
    'sofa': [('set_color', [100, 200, 300, 3500], 0)],   # copy of lamp via get
    'strip': [('set_zone_color', 2, 4, [1, 2, 3, 4])],
    'tile': [('set_matrix',
              [[0, 0, 0, 0], [1, 2, 3, 4], [0, 0, 0, 0], [0, 0, 0, 0]])]}
for dev in StubLan.devices:
    if dev.calls != expect[dev.get_label()]:
        print('{} received {}, expected {}'.format(
            dev.get_label(), dev.calls, expect[dev.get_label()]))
        ok = False
print('OK' if ok else 'PROPERTY C01 (get), C12 (capability mismatch), '
      'C15 (matrix) VIOLATED')
sys.exit(0 if ok else 1)
