import sys
sys.path.insert(0, '/tmp/wm-M16')
import bardolph
assert bardolph.__file__.startswith('/tmp/wm-M16/'), bardolph.__file__
# C20 (capture page renders without error) / C18 (web Capture button produces
# the snapshot script). get_value('.', 'script_path') looks up the key '.' and
# returns the literal 'script_path' as the directory.
import logging, os, tempfile
from bardolph.lib import injection, settings
from bardolph.controller import light_module
from bardolph.runtime import runtime_module
from web import web_app

work = tempfile.mkdtemp()
os.chdir(work)                      # nothing called 'script_path' exists here
scripts = os.path.join(work, 'my_scripts')
os.mkdir(scripts)
injection.configure()
settings.using({'manifest_file_name': None, 'use_fakes': True,
                'script_path': scripts,
                'single_light_discover': True, 'sleep_time': 0.01,
                'log_level': logging.ERROR, 'log_to_console': True}).configure()
light_module.configure()
runtime_module.configure()
app = web_app.WebApp()
bad = 0
try:
    app.snapshot()
except Exception as ex:
    print('capture failed:', repr(ex))
    bad = 1
target = os.path.join(scripts, '__snapshot__.ls')
if not os.path.exists(target):
    print('no snapshot script in the configured script_path')
    bad = 1
else:
    print('snapshot written,', os.path.getsize(target), 'bytes')
sys.exit(bad)
