"""M2274 / C15: `set L row r column c` on a (real-API) matrix light transmits
the whole matrix exactly once, sized by the light's height/width. The size is
learned with a GetDeviceChain request answered by StateDeviceChain; the network
stub answers only that request (as a real device would)."""
import os, sys
sys.path.insert(0, os.path.join(os.path.dirname(os.path.abspath(__file__)), '..'))
os.chdir(os.path.join(os.path.dirname(os.path.abspath(__file__)), '..'))
import logging
logging.disable(logging.CRITICAL)
import lifxlan
from lifxlan.errors import WorkflowException
from lifxlan.msgtypes import (GetDeviceChain, SetTileState64, StateDeviceChain)

HEIGHT, WIDTH = 3, 4

class ChainState:
    start_index = 0
    tile_devices = [{'width': WIDTH, 'height': HEIGHT}]

class Impl:
    def __init__(self):
        self.sent = []
    def get_label(self): return 'Tile'
    def get_group(self): return 'grp'
    def get_location(self): return 'loc'
    def get_product_features(self): return {'matrix': True}
    def get_product_name(self): return 'fake tile'
    def req_with_resp(self, msg_type, response_type, payload={}, *a, **kw):
        if msg_type is GetDeviceChain and response_type is StateDeviceChain:
            return ChainState()
        # A Get message the device does not know / a State message sent as a
        # request gets no answer.
        raise WorkflowException('no response to {}'.format(msg_type.__name__))
    def fire_and_forget(self, msg_type, payload={}, *a, **kw):
        self.sent.append((msg_type, payload))

tile = Impl()

class FakeLan:
    def __init__(self, num_lights=None): pass
    def get_lights(self): return [tile]

lifxlan.LifxLAN = FakeLan

from bardolph.controller import i_controller, lifx_lan_api, light_set
from bardolph.controller.script_job import ScriptJob
from bardolph.fakes import fake_clock
from bardolph.lib import injection, settings, std_out_output
from bardolph.runtime import runtime_module

injection.configure()
settings.using({'single_light_discover': True, 'use_fakes': False,
                'default_num_lights': 1}).configure()
fake_clock.configure()
lifx_lan_api.configure()
light_set.configure()
std_out_output.configure()
runtime_module.configure()

light = injection.provide(i_controller.LightSet).get_light('Tile')
if light is None or (light.get_height(), light.get_width()) != (HEIGHT, WIDTH):
    print('FAIL: size of matrix light is',
          None if light is None else (light.get_height(), light.get_width()))
    sys.exit(1)

job = ScriptJob.from_string(
    'units raw hue 10 saturation 20 brightness 30 kelvin 40 duration 0 '
    'set "Tile" row 1 column 2')
assert job.program is not None, job.compile_errors
job.execute()

if len(tile.sent) != 1 or tile.sent[0][0] is not SetTileState64:
    print('FAIL: expected exactly one SetTileState64, got', tile.sent)
    sys.exit(1)
payload = tile.sent[0][1]
expected = [[0, 0, 0, 0] for _ in range(HEIGHT * WIDTH)]
expected[1 * WIDTH + 2] = [10, 20, 30, 40]
if (payload['width'], payload['height']) != (WIDTH, HEIGHT) \
        or [list(c) for c in payload['colors']] != expected:
    print('FAIL: payload', payload)
    sys.exit(1)
print('OK')
sys.exit(0)
