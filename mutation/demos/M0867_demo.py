# C13: expiry removes exactly the lights not seen for longer than the
# configured age.  Real (lifxlan-backed) lights measure their age from
# _birth; with the patch get_age() raises and refresh()/expiry crashes.
import sys, os, logging, time
sys.path.insert(0, '/tmp/wm-M12')
os.chdir('/tmp/wm-M12')
import bardolph
assert bardolph.__file__.startswith('/tmp/wm-M12')

from bardolph.lib import injection, settings
from bardolph.lib.injection import bind_instance
from bardolph.controller import i_controller, lifx_lan_api
from bardolph.controller.light_set import LightSet

now = [1000.0]
time.time = lambda: now[0]          # controllable clock


class Impl:
    def __init__(self, label): self._label = label
    def get_label(self): return self._label
    def get_group(self): return 'g'
    def get_location(self): return 'l'
    def get_product_features(self):
        return {'color': True, 'multizone': False, 'matrix': False}
    def get_product_name(self): return 'fake bulb'

class Lan:
    def __init__(self): self.names = ['a', 'b']
    def get_lights(self): return [Impl(n) for n in self.names]

injection.configure()
settings.using({'default_num_lights': None, 'light_gc_time': 100}).configure()
lan = Lan()
api = lifx_lan_api.LifxLanApi.__new__(lifx_lan_api.LifxLanApi)
api._lifxlan = lan
bind_instance(api).to(i_controller.LightApi)
ls = LightSet()
try:
    ls.refresh()                    # t=1000: a, b seen
    now[0] += 150
    lan.names = ['b']               # a vanished
    ls.refresh()                    # t=1150: b re-seen, a is 150 s old
except Exception as ex:
    print('FAIL: refresh() raised', type(ex).__name__, ex)
    sys.exit(1)
names = list(ls.get_light_names())
print('names:', names, 'group g:', list(ls.get_group_lights('g')))
ok = (names == ['b'] and list(ls.get_group_lights('g')) == ['b']
      and list(ls.get_location_lights('l')) == ['b']
      and ls.get_light('a') is None)
print('OK' if ok else 'FAIL: wrong expiry')
sys.exit(0 if ok else 1)
