"""
M2279: lifx_lan_light.MatrixLight._get_size: tile.get('width', 0)
                                          -> tile.get(0, 'width')

C15: `set L row r column c` transmits the whole matrix exactly once, on matrix
lights of any height/width. With the patch the width of every real (lifxlan)
matrix light is the *string* 'width' (0 is never a key of the tile dict), so
the VM's MATRIX instruction dies with TypeError in range(0, 'width'), the
script is aborted and nothing is transmitted.
The lifxlan device is stubbed; no network.
Exit 0 = property holds, 1 = violated.
"""
import sys
sys.path.insert(0, '/tmp/wm-M13')
import bardolph
assert bardolph.__file__.startswith('/tmp/wm-M13'), bardolph.__file__

from bardolph.controller import i_controller, lifx_lan_light, light_set
from bardolph.controller.script_job import ScriptJob
from bardolph.lib import injection
from tests import test_module

HEIGHT, WIDTH = 6, 5


class _Chain:
    start_index = 0
    tile_devices = [{'width': WIDTH, 'height': HEIGHT, 'user_x': 0}]


class StubDevice:
    """Stands in for a lifxlan device object."""
    def __init__(self):
        self.sent = []

    def get_label(self): return 'Candle'
    def get_group(self): return 'g'
    def get_location(self): return 'l'
    def get_product_features(self): return {'matrix': True}

    def req_with_resp(self, *_):
        return _Chain()

    def fire_and_forget(self, msg_type, payload, num_repeats=1):
        self.sent.append(payload)


class StubApi(i_controller.LightApi):
    def __init__(self, lights):
        self._lights = lights

    def get_lights(self):
        return self._lights


test_module.configure()
device = StubDevice()
light = lifx_lan_light.MatrixLight(device)
print('size:', light.get_height(), light.get_width())
injection.bind_instance(StubApi([light])).to(i_controller.LightApi)
light_set.configure()

job = ScriptJob.from_string(
    'units raw hue 1 saturation 2 brightness 3 kelvin 4 '
    'set "Candle" row 1 column 2 3')
assert job.program is not None, job.compile_errors
job.execute()

expected = [[0, 0, 0, 0]] * (HEIGHT * WIDTH)
for column in (2, 3):
    expected[1 * WIDTH + column] = [1, 2, 3, 4]

ok = (light.get_width() == WIDTH and len(device.sent) == 1
      and device.sent[0]['colors'] == expected
      and device.sent[0]['width'] == WIDTH
      and device.sent[0]['height'] == HEIGHT)
if not ok:
    print('VIOLATION: width = %r, transmissions = %r'
          % (light.get_width(), device.sent))
    sys.exit(1)
print('ok')
sys.exit(0)
