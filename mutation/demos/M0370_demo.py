import os, sys
ROOT = os.path.dirname(os.path.dirname(os.path.abspath(__file__)))
sys.path.insert(0, ROOT)
os.chdir(ROOT)
import warnings; warnings.simplefilter("ignore")
def fail(msg):
    print("FAIL:", msg); sys.exit(1)

# Count the UDP datagrams that one matrix 'set' puts on the wire, using the real
# lifxlan Device.fire_and_forget with the socket replaced by a counter.
import lifxlan.device as dev
from lifxlan.msgtypes import SetTileState64
from bardolph.controller import lifx_lan_light
from bardolph.controller.color_matrix import ColorMatrix

sent = []
class FakeSock:
    def __init__(self, *a): pass
    def setsockopt(self, *a): pass
    def settimeout(self, *a): pass
    def bind(self, *a): pass
    def sendto(self, data, addr): sent.append((bytes(data), addr))
    def close(self): pass
dev.socket = FakeSock

class Impl(dev.Device):
    def __init__(self):
        super().__init__("d0:73:d5:00:00:01", "127.0.0.1", 1, 56700, 12345)
    def get_label(self): return "Candle"
    def get_group(self): return "g"
    def get_location(self): return "l"
    def get_product_features(self): return {"matrix": True, "multizone": False}

light = lifx_lan_light.MatrixLight(Impl(), height=2, width=2)
mat = ColorMatrix.new_from_iterable(2, 2, [[1, 2, 3, 4]] * 4)
light.set_matrix(mat, 0)
print("datagrams sent for one set_matrix:", len(sent))
if len(sent) != 1:
    fail("the matrix was transmitted %d times, not exactly once" % len(sent))
print("OK")
