"""M2092 / C13: stepping backward from any probe value yields the nearest
remaining smaller name, also in a one-element list."""
import os, sys
sys.path.insert(0, os.path.join(os.path.dirname(os.path.abspath(__file__)), ".."))
os.chdir(os.path.join(os.path.dirname(os.path.abspath(__file__)), ".."))
import warnings; warnings.simplefilter("ignore")
import logging
logging.disable(logging.CRITICAL)

from bardolph.lib.sorted_list import SortedList

status = 0
names = ['a', 'c', 'e', 'g']
for size in range(0, 5):
    lst = SortedList()
    for name in names[:size]:
        lst.add(name)
    for probe in 'Z', 'a', 'b', 'c', 'd', 'e', 'f', 'g', 'h':
        smaller = [n for n in names[:size] if n < probe]
        expected = smaller[-1] if smaller else None
        if lst.prev(probe) != expected:
            print('FAIL: {}.prev({!r}) = {!r}, expected {!r}'.format(
                list(lst), probe, lst.prev(probe), expected))
            status = 1
if status == 0:
    print('OK')
sys.exit(status)
