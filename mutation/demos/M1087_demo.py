"""
M1087: controller.light.Light.__init__ no longer stores _name.  The fakes keep
their own _name, but every real (lifxlan-backed) light derives from this class,
so get_name() raises AttributeError: LightSet.discover() raises instead of
returning True/False and no light is ever known.  The lifxlan devices are
stubbed (all requests succeed).  Exit 0 = discovery works, 1 = it raises.
"""
import sys
sys.path.insert(0, '/tmp/wm-M15')
import warnings
warnings.simplefilter('ignore')
import logging
import bardolph
assert bardolph.__file__.startswith('/tmp/wm-M15/'), bardolph.__file__

import lifxlan


class StubDevice:
    def __init__(self, label, group, location):
        self._label, self._group, self._location = label, group, location
        self.calls = []
    def get_label(self): return self._label
    def get_group(self): return self._group
    def get_location(self): return self._location
    def get_product_features(self): return {'multizone': False, 'matrix': False}
    def get_product_name(self): return 'Stub bulb'
    def get_color(self): return [1, 2, 3, 4]
    def get_power(self): return 65535
    def set_color(self, color, duration, rapid):
        self.calls.append(('color', list(color), duration))
    def set_power(self, power, duration, rapid):
        self.calls.append(('power', power, duration))


DEVICES = [StubDevice('B', 'g1', 'home'), StubDevice('A', 'g1', 'home')]


class StubLan:
    def __init__(self, num_lights=None, verbose=False):
        pass
    def get_lights(self):
        return DEVICES


lifxlan.LifxLAN = StubLan           # lifx_lan_api looks it up at call time

from bardolph.controller import i_controller, lifx_lan_api
from bardolph.controller.light_set import LightSet
from bardolph.lib import injection, settings

injection.configure()
settings.using({'single_light_discover': True}).configure()
lifx_lan_api.configure()
logging.disable(logging.CRITICAL)

light_set = LightSet()
try:
    result = light_set.discover()
except Exception as ex:
    print('FAIL: discover() raised {!r}'.format(ex))
    sys.exit(1)

names = list(light_set.get_light_names())
print('discover() ->', result, ' names:', names,
      ' group g1:', list(light_set.get_group_lights('g1') or []))
if result is True and names == ['A', 'B'] \
        and list(light_set.get_group_lights('g1')) == ['A', 'B']:
    print('OK')
    sys.exit(0)
print('FAIL: directory is wrong')
sys.exit(1)
