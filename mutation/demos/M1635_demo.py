# C06: every accepted script is executable - the VM never hits an internal
# fault on it.  printf named fields are resolved with Register.from_string(),
# so "{first_column}" reads the Registers attribute first_column before anything has
# stored it (only a matrix "set ... row/column" stores it).
import sys, os, time, logging
sys.path.insert(0, '/tmp/wm-M12')
os.chdir('/tmp/wm-M12')
import bardolph
assert bardolph.__file__.startswith('/tmp/wm-M12')

from tests import test_module
from bardolph.controller import i_controller
from bardolph.controller.script_job import ScriptJob
from bardolph.lib.injection import provide
from bardolph.lib.job_control import JobControl

test_module.using_small_set().configure()
out = test_module.replace_print()

errors = []
class Grab(logging.Handler):
    def emit(self, record):
        if record.levelno >= logging.ERROR:
            errors.append(record.getMessage())
logging.getLogger().addHandler(Grab())

script = '''
assign first_column 5
printf "{first_column}\\n"
duration 0 on "light_1"
'''
job = ScriptJob.from_string(script)
assert job.program is not None, job.compile_errors   # compiler accepts it
jobs = JobControl()
jobs.add_job(job)
deadline = time.time() + 10
while jobs.has_jobs() and time.time() < deadline:
    time.sleep(0.01)

calls = provide(i_controller.LightSet).get_light('light_1').get_call_list()
print('printed:', out.get_objects())
print('calls:', calls)
print('errors:', errors)
ok = len(calls) == 1 and not errors
print('OK' if ok else 'FAIL: VM internal fault, script aborted before "on"')
sys.exit(0 if ok else 1)
