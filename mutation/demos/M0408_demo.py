# Demo for M0408 (C11): 'time at P' must compile and denote exactly the times P matches.
import os, sys
ROOT = os.path.dirname(os.path.dirname(os.path.abspath(__file__)))
os.chdir(ROOT)
sys.path.insert(0, ROOT)
import warnings; warnings.simplefilter("ignore")
import bardolph
assert bardolph.__file__.startswith(ROOT), bardolph.__file__

from tests import test_module
test_module.configure()
from bardolph.parser.parse import Parser
from bardolph.vm.vm_codes import OpCode

def fail(msg):
    print('FAIL:', msg)
    sys.exit(1)

for src, yes, no in (
        ('time at 12:00 wait', [(12, 0)], [(12, 1), (0, 12), (11, 0)]),
        ('time at 1*:*5 or 23:59 wait', [(10, 5), (19, 55), (23, 59)],
         [(9, 5), (23, 58), (20, 5)])):
    parser = Parser()
    if not parser.parse(src):
        fail('valid script {!r} rejected: {}'.format(src, parser.get_errors()))
    pats = [i.param1 for i in parser.get_program()
            if i.op_code is OpCode.TIME_PATTERN]
    if not pats:
        fail('no time pattern compiled for {!r}'.format(src))
    match = lambda h, m: any(p.match(h, m) for p in pats)
    if not all(match(*t) for t in yes) or any(match(*t) for t in no):
        fail('wrong times matched for {!r}'.format(src))
print('OK')
sys.exit(0)
