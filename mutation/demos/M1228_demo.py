"""
M1228: Registers.__init__ no longer creates the `name` register.
An accepted script whose printf uses the named field {name} before any light
was addressed makes the VM fault (AttributeError caught by Machine.run), so
the printf text and everything after it is lost.  Clean tree: "[None]", then
"after".  Exits 0 when the script runs to its end, 1 otherwise.
"""
import sys
sys.path.insert(0, '/tmp/wm-M15')
import warnings
warnings.simplefilter('ignore')
import logging
import bardolph
assert bardolph.__file__.startswith('/tmp/wm-M15/'), bardolph.__file__

from tests import test_module
from bardolph.controller.script_job import ScriptJob

test_module.configure()
logging.disable(logging.CRITICAL)
output = test_module.replace_print()

job = ScriptJob.from_string('printf "[{name}]\\n" println "after"')
assert job.program is not None, job.compile_errors   # compiler accepts it
job.execute()

got = output.get_objects()
state = job.get_machine_state()
finished = state.reg.pc >= len(job._machine._program)
print('output:', got, ' ran to end:', finished)
if got == ['[None]\n', 'after', '\n'] and finished:
    print('OK')
    sys.exit(0)
print('FAIL: accepted script faulted inside the VM; output lost')
sys.exit(1)
