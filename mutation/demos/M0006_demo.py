"""M0006: param_32 = round(max(min(p, 2**32-1), 0)).  With the arguments of
max() swapped a NaN duration is no longer clamped to 0: max(nan, 0) is nan and
round(nan) raises ValueError, so the VM stops instead of handing the light an
in-range integer duration.  A NaN duration register is reachable from a plain
script: a 400-digit literal is float inf, and {big - big} is NaN.
Exit 0 = both set commands reach the light with an integer duration in
0..2**32-1, exit 1 otherwise."""
import sys
sys.path.insert(0, '/tmp/wm-M21')
import bardolph
assert bardolph.__file__.startswith('/tmp/wm-M21'), bardolph.__file__

from tests import test_module
from bardolph.controller import i_controller
from bardolph.controller.script_job import ScriptJob
from bardolph.fakes.activity_monitor import Action
from bardolph.lib.injection import provide
from bardolph.lib import param_helper

test_module.configure()
big = '9' * 400 + '.0'
src = '''
    define big {}
    assign n {{big - big}}
    duration n
    hue 5 saturation 50 brightness 50 kelvin 2700
    set "Top"
    duration 2 hue 10
    set "Top"
'''.format(big)
job = ScriptJob.from_string(src)
assert job.program is not None, job.compile_errors
job.execute()

calls = None
for light in provide(i_controller.LightApi).get_lights():
    if light.get_name() == 'Top':
        calls = light.get_call_list()
print('calls to "Top":', calls)

ok = calls is not None and len(calls) == 2
if ok:
    for action, color, duration in calls:
        ok = ok and action is Action.SET_COLOR
        ok = ok and isinstance(duration, int) and 0 <= duration <= 0xffffffff
    ok = ok and calls[1][2] == 2000
try:
    direct = param_helper.param_32(float('nan'))
    print('param_32(nan) =', direct)
except Exception as ex:
    print('param_32(nan) raised', type(ex).__name__, ex)
    ok = False
print('OK' if ok else 'FAIL: script aborted / duration not a protocol integer')
sys.exit(0 if ok else 1)
