"""C13: expiry (LightSet.refresh = discover + expire) removes exactly the
lights not seen for longer than light_gc_time, with all their memberships."""
import sys, logging
sys.path.insert(0, '/tmp/wm-M06')
from bardolph.controller import i_controller
from bardolph.controller.light_set import LightSet
from bardolph.fakes import fake_light_api
from bardolph.lib import injection, settings

injection.configure()
settings.using({'light_gc_time': 100, 'single_light_discover': True,
                'use_fakes': True}).configure()
fake_light_api.using((
    ('a', 'g1', 'l1'), ('b', 'g1', 'l1'), ('c', 'g2', 'l2'))).configure()
api = injection.provide(i_controller.LightApi)
ls = LightSet()
assert ls.discover()
assert list(ls.get_light_names()) == ['a', 'b', 'c']

# 'c' (sole member of g2 / l2) and 'a' have not been seen for 101 s
for light in api.get_lights():
    if light.get_name() in ('a', 'c'):
        light._age = 101.0
ls.refresh()

names = list(ls.get_light_names())
groups = {g: list(ls.get_group_lights(g)) for g in ls.get_group_names()}
locs = {l: list(ls.get_location_lights(l)) for l in ls.get_location_names()}
print(names, groups, locs)
ok = (names == ['b'] and groups == {'g1': ['b']} and locs == {'l1': ['b']}
      and ls.get_light('a') is None and ls.get_light('c') is None
      and ls.get_light_count() == 1)
print('ok' if ok else 'FAIL: expired lights still listed after refresh()')
sys.exit(0 if ok else 1)
