import sys; sys.path.insert(0, "/tmp/wm-M07")
# C18: the script produced by capture (ScriptSnapshot().generate(None), as used
# by `lscap -s` and the web Capture button) compiles and, replayed against the
# same lights in another state, restores every light, zone and matrix cell.
import bardolph; assert bardolph.__file__.startswith("/tmp/wm-M07"), bardolph.__file__
import random
from tests import test_module
from bardolph.controller import i_controller
from bardolph.controller.script_job import ScriptJob
from bardolph.controller.snapshot import ScriptSnapshot
from bardolph.fakes import fake_light
from bardolph.lib.injection import provide

test_module.configure()
# own population: plain lights, a 16-zone strip (the fake reads back 16 zones),
# a non-square matrix
from bardolph.fakes import fake_light_api
from bardolph.fakes.fake_light_api import LightType
from bardolph.controller import light_set
fake_light_api.using((
    ('Top', 'Pole', 'Home'), ('Lamp', 'Furniture', 'Living Room'),
    ('Strip', 'Furniture', 'Home', LightType.MULTI_ZONE, 16),
    ('Candle', 'Furniture', 'Home', LightType.MATRIX, 6, 5),
    ('Tile', 'Furniture', 'Home', LightType.MATRIX, 3, 7))).configure()
light_set.configure()
rnd = random.Random(7)
def rc(): return [rnd.randrange(65536) for _ in range(4)]

lights = provide(i_controller.LightApi).get_lights()
def scramble():
    for l in lights:
        l._color = rc()
        if isinstance(l, fake_light.MultizoneLight):
            l._zone_colors = [rc() for _ in l._zone_colors]
        if isinstance(l, fake_light.MatrixLight):
            l._matrix.set_from_iterable(rc() for _ in range(l._height * l._width))
def state():
    st = {}
    for l in lights:
        if isinstance(l, fake_light.MultizoneLight):
            st[l.get_name()] = [list(c) for c in l._zone_colors]
        elif isinstance(l, fake_light.MatrixLight):
            st[l.get_name()] = [list(c) for c in l._matrix.as_list()]
        else:
            st[l.get_name()] = list(l._color)
    return st

scramble()
captured = state()
try:
    text = ScriptSnapshot().generate(None).text
except Exception as ex:
    print("FAIL: capture raised", repr(ex)); sys.exit(1)
scramble()
assert state() != captured
job = ScriptJob.from_string(text)
if job.program is None:
    print("FAIL: captured script does not compile:", job.compile_errors[:300])
    sys.exit(1)
job.execute()
after = state()
bad = [n for n in captured if captured[n] != after[n]]
if bad:
    print("FAIL: not restored:", bad); sys.exit(1)
print("ok")
