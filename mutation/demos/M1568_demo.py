import os, sys
ROOT = os.path.dirname(os.path.dirname(os.path.abspath(__file__)))
sys.path.insert(0, ROOT)
os.chdir(ROOT)
import warnings; warnings.simplefilter("ignore")
import time
from tests import test_module
from bardolph.fakes import fake_light_api
from bardolph.fakes.fake_light_api import LightType
from bardolph.fakes.activity_monitor import Action
from bardolph.controller import i_controller, light_set
from bardolph.controller.snapshot import ScriptSnapshot
from bardolph.controller.script_job import ScriptJob
from bardolph.lib.injection import provide
from bardolph.lib.job_control import JobControl

test_module.configure()
fake_light_api.using((
    ("A", "g", "l"), ("B", "g", "l"),
    ("S", "g", "l", LightType.MULTI_ZONE, 4),
    ("M", "g", "l", LightType.MATRIX, 2, 2))).configure()
light_set.configure()
lights = {l.get_name(): l for l in provide(i_controller.LightApi).get_lights()}
lights["A"]._color = [100, 200, 300, 3500]; lights["A"]._power = 65535
lights["B"]._color = [1, 2, 3, 2700]; lights["B"]._power = 0

def fail(msg):
    print("FAIL:", msg); sys.exit(1)

text = ScriptSnapshot().generate(None).text
print(text)
job = ScriptJob.from_string(text)
if job.program is None:
    fail("captured script does not compile: " + str(job.compile_errors))
# disturb the state, then replay
lights["A"]._color = [9, 9, 9, 9]; lights["B"]._color = [8, 8, 8, 8]
for l in lights.values():
    l.get_call_list().clear()
jobs = JobControl(); jobs.add_job(job)
while jobs.has_jobs():
    time.sleep(0.01)
if lights["A"]._color != [100, 200, 300, 3500] or lights["B"]._color != [1, 2, 3, 2700]:
    fail("colours not restored")
pa = [c for c in lights["A"].get_call_list() if c[0] is Action.SET_POWER]
pb = [c for c in lights["B"].get_call_list() if c[0] is Action.SET_POWER]
if not pa or pa[-1][1] != 1 or not pb or pb[-1][1] != 0:
    fail("power not restored: A %s B %s" % (pa, pb))
print("OK"); sys.exit(0)
