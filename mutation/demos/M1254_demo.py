"""M1254: light_module.configure() - the start-up wiring shared by the web
server, lsrun, lscap and ls_module - no longer calls light_set.configure(), so
no LightSet is ever bound.  A script started through the web front end is
accepted and queued, but its first device instruction dies in the VM with
UnboundException and nothing reaches the lights.  (The test suite binds the
LightSet itself in tests/test_module.py, which is why it stays green.)

The web application is started the way web/start_wsgi.py does it
(flask_module.configure() -> web_module.configure()), with flask stubbed and
`use_fakes` switched on through the BARDOLPH_INI file; then the manifest's path
"on" (scripts/on-all.ls: `duration 1.5 on all`) is requested."""
import os, sys, tempfile, time, types
sys.path.insert(0, '/tmp/wm-M11')
import bardolph
assert bardolph.__file__.startswith('/tmp/wm-M11/'), bardolph.__file__
os.chdir('/tmp/wm-M11')       # the manifest is opened as web/manifest.json


def check():
    flask = types.ModuleType('flask')
    class Blueprint:
        def __init__(self, *_, **__): pass
        def route(self, *_, **__):
            return lambda fn: fn
    class Flask:
        def __init__(self, *_, **__): pass
    class _Request:
        headers = {'User-Agent': 'Mozilla/5.0 (X11; Linux)'}
    flask.Blueprint, flask.Flask = Blueprint, Flask
    flask.request = _Request()
    flask.render_template = lambda template, **kw: (template, kw)
    sys.modules['flask'] = flask

    ini = tempfile.NamedTemporaryFile('w', suffix='.ini', delete=False)
    ini.write('[controller]\nuse_fakes: True\nsingle_light_discover: True\n'
              '[logger]\nlog_to_console: True\n')
    ini.close()
    os.environ['BARDOLPH_INI'] = ini.name

    from bardolph.controller import i_controller
    from bardolph.fakes.activity_monitor import Action
    from bardolph.lib.injection import provide

    ok = True
    try:
        from web import flask_module, front_end, i_web
        assert flask_module.__file__.startswith('/tmp/wm-M11/')
        flask_module.configure()
        template, params = front_end.run_script('on')
        if template != 'action.html' or params.get('message') != 'Started':
            print('request for /on rendered', template, params.get('message'))
            ok = False
        jobs = provide(i_web.WebApp)._jobs
        for _ in range(500):
            if not jobs.has_jobs():
                break
            time.sleep(0.01)
        api = provide(i_controller.LightApi)
        if api.get_call_list() != [(Action.SET_POWER, 1, 1500)]:
            print('script for /on sent', api.get_call_list(),
                  'expected', [(Action.SET_POWER, 1, 1500)])
            ok = False
    except Exception as ex:
        print('raised {}: {}'.format(type(ex).__name__, ex))
        ok = False
    finally:
        os.unlink(ini.name)
    return ok


ok = check()
print('OK' if ok else 'PROPERTY C01 VIOLATED under the shipped start-up path (the started script issues none of its commands)')
sys.exit(0 if ok else 1)
