import os, sys
ROOT = os.path.dirname(os.path.dirname(os.path.abspath(__file__)))
sys.path.insert(0, ROOT)
os.chdir(ROOT)
import warnings; warnings.simplefilter("ignore")
def fail(msg):
    print("FAIL:", msg); sys.exit(1)

import time
from tests import test_module
from bardolph.controller import i_controller
from bardolph.controller.script_job import ScriptJob
from bardolph.fakes.activity_monitor import Action
from bardolph.lib.injection import provide
from bardolph.lib.job_control import JobControl
test_module.configure()
for name in ("math", "builtins", "py_random"):
    src = 'define %s with x begin hue x end  units raw duration 0 %s 4 set "Top"' % (name, name)
    job = ScriptJob.from_string(src)
    if job.program is None:
        fail("'%s' is not a keyword but cannot name a routine: %s" % (name, job.compile_errors))
    jobs = JobControl(); jobs.add_job(job)
    while jobs.has_jobs():
        time.sleep(0.01)
    top = [l for l in provide(i_controller.LightApi).get_lights() if l.get_name() == "Top"][0]
    calls = [c for c in top.get_call_list() if c[0] is Action.SET_COLOR]
    if not calls or calls[-1][1][0] != 4:
        fail("routine %s did not run: %s" % (name, calls))
print("OK")
