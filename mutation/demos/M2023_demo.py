"""M2023 / C01 (also C11): a well-formed `time at <pattern>` statement compiles
and the following wait/command takes effect at the first matching minute."""
import os, sys
sys.path.insert(0, os.path.join(os.path.dirname(os.path.abspath(__file__)), ".."))
os.chdir(os.path.join(os.path.dirname(os.path.abspath(__file__)), ".."))
import warnings; warnings.simplefilter("ignore")
import logging
logging.disable(logging.CRITICAL)

from tests import test_module
test_module.configure()
from bardolph.lib import i_lib, injection

waited_for = []

class StubClock(i_lib.Clock):
    # Simulated clock: every minute of the day goes by; remember which
    # minute the wait ended at.
    def wait_until(self, time_pattern):
        for minute_of_day in range(1440):
            if time_pattern.match(minute_of_day // 60, minute_of_day % 60):
                waited_for.append(divmod(minute_of_day, 60))
                return

injection.bind(StubClock).to(i_lib.Clock)
from bardolph.controller import i_controller
from bardolph.controller.script_job import ScriptJob
from bardolph.lib.injection import provide
from bardolph.parser.parse import Parser

status = 0
for src in ('time at 12:00 wait on all',
            'time at 1*:*5 or 2:34 wait on all',
            'define t 7:30 time at t wait on all'):
    parser = Parser()
    if not parser.parse(src):
        print('FAIL: rejected {!r}: {}'.format(src, parser.get_errors().strip()))
        status = 1
if status == 0:
    job = ScriptJob.from_string('time at 12:00 wait on all')
    job.execute()
    calls = provide(i_controller.LightApi).get_call_list()
    if len(calls) != 1 or set(waited_for) != {(12, 0)}:
        print('FAIL: expected a wait until 12:00 and one power-all command,'
              ' got', waited_for, calls)
        status = 1
if status == 0:
    print('OK')
sys.exit(status)
