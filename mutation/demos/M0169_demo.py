# C20: a stop-all request (manifest lists a control with path "stop-all")
# must stop everything and hand the manifest's control to the action page;
# it must not fail.
import sys, os, json, time, types, tempfile, logging
sys.path.insert(0, '/tmp/wm-M01')
os.chdir('/tmp/wm-M01')

flask = types.ModuleType('flask')
class Blueprint:
    def __init__(self, *a, **k): pass
    def route(self, *a, **k): return lambda fn: fn
class _Req:
    headers = {'User-Agent': 'demo'}
flask.Blueprint = Blueprint
flask.request = _Req()
flask.render_template = lambda name, **kw: (name, kw)
sys.modules['flask'] = flask

from bardolph.lib import injection, settings, log_config, std_out_output
from bardolph.fakes import fake_clock, fake_light_api
from bardolph.runtime import runtime_module
from bardolph.controller import light_set
from web import web_app, i_web, front_end

tmp = tempfile.mkdtemp()
manifest = os.path.join(tmp, 'manifest.json')
json.dump([{'file_name': '', 'path': 'stop-all', 'title': 'Stop <all>',
            'background': 'Maroon', 'color': 'White'}], open(manifest, 'w'))

injection.configure()
settings.using({'log_level': logging.CRITICAL, 'log_to_console': True,
                'single_light_discover': True, 'use_fakes': True,
                'manifest_file_name': manifest, 'script_path': tmp
                }).configure()
log_config.configure()
logging.disable(logging.CRITICAL)
fake_clock.configure()
fake_light_api.using_small_set().configure()
light_set.configure()
std_out_output.configure()
runtime_module.configure()
app = web_app.WebApp()
injection.bind_instance(app).to(i_web.WebApp)

fe = front_end.FrontEnd()
try:
    name, kw = fe.stop_all()
except Exception as ex:
    print('stop-all request raised', type(ex).__name__, ex)
    sys.exit(1)
print(name, kw['message'], kw['script'].path, kw['script'].title, kw['icon'])
ok = (name == 'action.html' and kw['message'] == 'Requested'
      and getattr(kw['script'], 'path', None) == 'stop-all'
      and kw['script'].title == 'Stop &lt;all&gt;')
sys.exit(0 if ok else 1)
