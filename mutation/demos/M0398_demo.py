# Demo for M0398 (C18): the capture script must be produced, compile and restore the captured state.
import os, sys
ROOT = os.path.dirname(os.path.dirname(os.path.abspath(__file__)))
os.chdir(ROOT)
sys.path.insert(0, ROOT)
import warnings; warnings.simplefilter("ignore")
import bardolph
assert bardolph.__file__.startswith(ROOT), bardolph.__file__

from tests import test_module
test_module.configure()
from bardolph.controller import i_controller
from bardolph.controller.script_job import ScriptJob
from bardolph.controller.snapshot import ScriptSnapshot
from bardolph.lib.injection import provide

def fail(msg):
    print('FAIL:', msg)
    sys.exit(1)

light_set = provide(i_controller.LightSet)
top = light_set.get_light('Top')
lamp = light_set.get_light('Lamp')
top._color = [1234, 40000, 65535, 3500]
lamp._color = [65535, 1, 2, 9000]
try:
    text = ScriptSnapshot().generate(None).text
except Exception as ex:
    fail('capture raised {!r}'.format(ex))
if not text.startswith('units raw\n'):
    fail('capture script does not start with "units raw"')
job = ScriptJob.from_string(text)
if job.program is None:
    fail('capture script does not compile: ' + job.compile_errors)
top._color = [0, 0, 0, 0]
lamp._color = [5, 5, 5, 5]
job.execute()
if top._color != [1234, 40000, 65535, 3500] or lamp._color != [65535, 1, 2, 9000]:
    fail('replay did not restore colours: {} {}'.format(top._color, lamp._color))
print('OK')
sys.exit(0)
