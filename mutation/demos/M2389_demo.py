"""M2389 / C06: a quoted string where a number is required (hue "abc") is
rejected with a line-numbered message; an accepted script never faults the VM."""
import os, sys
sys.path.insert(0, os.path.join(os.path.dirname(os.path.abspath(__file__)), ".."))
os.chdir(os.path.join(os.path.dirname(os.path.abspath(__file__)), ".."))
import warnings; warnings.simplefilter("ignore")
import logging
logging.disable(logging.CRITICAL)

from tests import test_module
test_module.configure()
from bardolph.controller import i_controller
from bardolph.controller.script_job import ScriptJob
from bardolph.lib.injection import provide
from bardolph.parser.parse import Parser

src = 'on all\nhue "abc" saturation 50 brightness 50 kelvin 2700\nset all\noff all\n'
parser = Parser()
if not parser.parse(src):
    errors = parser.get_errors()
    if 'Line 2' in errors:
        print('OK, rejected:', errors.strip())
        sys.exit(0)
    print('FAIL: rejection without line number:', errors)
    sys.exit(1)

# Accepted: then it has to be executable without an internal fault.
faults = []
class Catcher(logging.Handler):
    def emit(self, record):
        if 'Machine stopped due to' in record.getMessage():
            faults.append(record.getMessage())
logging.disable(logging.NOTSET)
logging.getLogger().addHandler(Catcher())
job = ScriptJob.from_string(src)
job.execute()
calls = provide(i_controller.LightApi).get_call_list()
print('FAIL: accepted; VM faults: {}; commands sent: {}'.format(faults, calls))
sys.exit(1)
