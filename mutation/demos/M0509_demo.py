import sys
sys.path.insert(0, '/tmp/wm-M16')
import bardolph
assert bardolph.__file__.startswith('/tmp/wm-M16/'), bardolph.__file__
import logging
import lifxlan
from bardolph.lib import injection, settings
from bardolph.controller import i_controller, lifx_lan_api, light_set

class Dev:
    """Stub of a lifxlan device: every request succeeds."""
    def __init__(self, label, group, location):
        self.label, self.group, self.location = label, group, location
        self.calls = []
    def get_label(self): return self.label
    def get_group(self): return self.group
    def get_location(self): return self.location
    def get_product_features(self): return {}
    def get_product_name(self): return 'stub'
    def get_color(self): return [1, 2, 3, 4]
    def get_power(self): return 0
    def set_color(self, *a): self.calls.append(('color',) + a)
    def set_power(self, *a): self.calls.append(('power',) + a)

DEVS = [Dev('b', 'g1', 'loc'), Dev('a', 'g1', 'loc'), Dev('c', 'g2', 'loc')]

class StubLan:
    def __init__(self, num_lights=None): self.calls = []
    def get_lights(self): return DEVS
    def set_color_all_lights(self, *a): self.calls.append(('color',) + a)
    def set_power_all_lights(self, *a): self.calls.append(('power',) + a)

lifxlan.LifxLAN = StubLan
injection.configure()
settings.using({'single_light_discover': True, 'use_fakes': False,
                'log_level': logging.ERROR}).configure()
lifx_lan_api.configure()
# C12: discovery never raises (here every network request succeeds).
# LifxLanApi._lifxlan is read by get_lights()/set_*_all_lights() and is only
# ever assigned by the constructor line the patch deletes.
bad = 0
ls = light_set.LightSet()
try:
    ok = ls.discover()
    print('discover ->', ok, list(ls.get_light_names()))
    if not ok or list(ls.get_light_names()) != ['a', 'b', 'c']:
        bad = 1
    ls.set_color_all_lights([1, 2, 3, 4], 0)
except Exception as ex:
    print('discover raised:', repr(ex))
    bad = 1
sys.exit(bad)
