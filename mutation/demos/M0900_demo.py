"""C20: /stop/<path> must stop exactly the named running job (queued or
background) and leave the others alone.
Drives web.front_end with a stub flask module and a temporary manifest."""
import json, os, shutil, sys, time, types
sys.path.insert(0, '.')

# ---- stub flask -----------------------------------------------------------
flask = types.ModuleType('flask')
rendered = []
class _Blueprint:
    def __init__(self, *a, **k): pass
    def route(self, *a, **k): return lambda fn: fn
class _Request:
    headers = {'User-Agent': 'demo'}
flask.Blueprint = _Blueprint
flask.Flask = object
flask.request = _Request()
flask.render_template = lambda name, **kw: rendered.append((name, kw)) or name
sys.modules['flask'] = flask

from tests import test_module
from bardolph.lib import injection, settings

tmp = os.path.join(os.path.dirname(os.path.abspath(__file__)), '_tmp_M0900')
shutil.rmtree(tmp, ignore_errors=True)
os.makedirs(tmp)
for name, light in (('loop', 'Top'), ('other', 'Bottom')):
    with open(os.path.join(tmp, name + '.ls'), 'w') as f:
        f.write('repeat begin on "{}" end\n'.format(light))
manifest = os.path.join(tmp, 'manifest.json')
with open(manifest, 'w') as f:
    json.dump([
        {'file_name': 'loop.ls', 'background': 'b', 'color': 'c'},
        {'file_name': 'other.ls', 'run_background': True,
         'background': 'b', 'color': 'c'}], f)

test_module.configure()
settings.Settings._the_config.update(
    {'manifest_file_name': manifest, 'script_path': tmp})

from web import front_end, i_web, web_app
app = web_app.WebApp()
injection.bind_instance(app).to(i_web.WebApp)
fe = front_end.fe
jobs = app._jobs


def finish(code, msg):
    print(msg)
    jobs.clear_queue()
    jobs.stop_current()
    jobs.stop_background()
    shutil.rmtree(tmp, ignore_errors=True)
    sys.stdout.flush()
    os._exit(code)


def wait_for(pred, secs=3.0):
    end = time.time() + secs
    while time.time() < end:
        if pred():
            return True
        time.sleep(0.02)
    return pred()


try:
    fe.run_script('loop')
    fe.run_script('other')
    if not wait_for(lambda: jobs.is_running('loop') and jobs.is_running('other')):
        finish(1, 'FAIL: scripts did not start')
    fe.stop_script('loop')
    if not wait_for(lambda: not jobs.is_running('loop')):
        finish(1, 'FAIL: /stop/loop did not stop the running queued job "loop"')
    if not jobs.is_running('other'):
        finish(1, 'FAIL: /stop/loop also stopped "other"')
    fe.stop_script('other')
    if not wait_for(lambda: not jobs.is_running('other')):
        finish(1, 'FAIL: /stop/other did not stop the background job')
    fe.stop_script('nonexistent')       # must simply show the index
except Exception as ex:
    import traceback; traceback.print_exc()
    finish(1, 'FAIL: request raised {!r}'.format(ex))
finish(0, 'ok')
