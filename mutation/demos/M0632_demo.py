"""C06: text that breaks a documented rule is rejected with a line number.
docs/language.rst ("Referencing Registers"): registers "can not be used as
values for zone, row, or column ... None of this will work:
    set "Candle" row hue".  Every such text must be rejected, for row exactly as
for column and zone."""
import sys
sys.path.insert(0, '/tmp/wm-M06')
from tests import test_module
from bardolph.parser.parse import Parser

test_module.configure()
bad = []
for reg in ('hue', 'saturation', 'brightness', 'kelvin', 'time', 'duration'):
    for text in ('set "Candle" row {}\n',
                 'set "Candle" column 1 row {} 3\n',
                 'set "Candle" begin\n stage row {}\nend\n',
                 'set "Candle" column {}\n',
                 'set "Strip" zone {}\n'):
        text = text.format(reg)
        parser = Parser()
        accepted = parser.parse(text)
        if accepted or 'Line ' not in parser.get_errors():
            bad.append(text)
for text in bad:
    print('FAIL: accepted', repr(text))
print('ok' if not bad else '{} rule-breaking texts accepted'.format(len(bad)))
sys.exit(1 if bad else 0)
