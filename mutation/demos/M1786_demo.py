import os, sys
ROOT = os.path.dirname(os.path.dirname(os.path.abspath(__file__)))
sys.path.insert(0, ROOT)
os.chdir(ROOT)
import warnings; warnings.simplefilter("ignore")
def fail(msg):
    print("FAIL:", msg); sys.exit(1)

# Discovery through the real LIFX-LAN adapter (lifxlan library stubbed at the
# device level, every request succeeds) with one multizone strip on the network.
import logging
import lifxlan
from bardolph.controller import i_controller, lifx_lan_api, light_set
from bardolph.controller.snapshot import ScriptSnapshot
from bardolph.lib import injection, settings
from bardolph.lib.injection import provide

class StripImpl:
    zones = [[i, 2 * i, 3 * i, 3500] for i in range(1, 5)]
    def get_label(self): return "Strip"
    def get_group(self): return "g"
    def get_location(self): return "l"
    def get_product_name(self): return "LIFX Z"
    def get_product_features(self):
        return {"multizone": True, "matrix": False, "color": True}
    def get_power(self): return 65535
    def get_color(self): return [0, 0, 0, 0]
    def get_color_zones(self, start=None, end=None):
        if (start is None) != (end is None):
            raise ValueError("start and end must both be provided, or neither")
        return self.zones if start is None else self.zones[start:end]

class FakeLan:
    def __init__(self, *a, **k): pass
    def get_lights(self): return [StripImpl()]

lifxlan.LifxLAN = FakeLan
injection.configure()
settings.using({"single_light_discover": True}).configure()
lifx_lan_api.configure()
ls = light_set.LightSet()
try:
    ok = ls.discover()
except Exception as ex:
    fail("discover() raised %r" % ex)
if not ok or list(ls.get_light_names()) != ["Strip"]:
    fail("strip not discovered")
strip = ls.get_light("Strip")
if strip.get_num_zones() != 4 or strip.get_zone_colors() != StripImpl.zones:
    fail("zone colours not readable")
injection.bind_instance(ls).to(i_controller.LightSet)
text = ScriptSnapshot().generate(None).text
if text.count('set "Strip" zone') != 4:
    fail("capture does not list the 4 zones:\n" + text)
print("OK")
