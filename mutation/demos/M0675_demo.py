"""SUPPLEMENTARY (patch classified OUT-OF-SCOPE, borderline C19).
The only run-time-visible effect of the patch: printing a value that is a
time pattern shows the Python repr of the TimePattern, whose hour and minute
fields are now swapped.  Exits 0 on the clean tree, 1 with the patch."""
import io, sys, contextlib
sys.path.insert(0, '.')
from tests import test_module
from bardolph.controller.script_job import ScriptJob

test_module.configure()
job = ScriptJob.from_string('define t 12:34\nprintln t')
assert job.program is not None, job.compile_errors
buf = io.StringIO()
with contextlib.redirect_stdout(buf):
    job.execute()
out = buf.getvalue()
if out != 'TimePattern("12", "34")\n':
    print('FAIL: printed', repr(out))
    sys.exit(1)
print('ok', repr(out))
sys.exit(0)
