import sys
sys.path.insert(0, '/tmp/wm-M16')
import bardolph
assert bardolph.__file__.startswith('/tmp/wm-M16/'), bardolph.__file__
# C01/C02: the value printed / transmitted is determined by the register
# contents; documentation: "Any uninitialized values default to zero".
# In logical mode the green register is readable as an operand before
# anything has written it.
from tests import test_module
from bardolph.controller import i_controller
from bardolph.controller.script_job import ScriptJob
from bardolph.lib.injection import provide

test_module.configure()
out = test_module.replace_print()
job = ScriptJob.from_string(
    'print red print green print blue '
    'hue 10 saturation {green * 100} brightness 0 set "Top"')
assert job.program is not None, job.compile_errors
job.execute()
top = [l for l in provide(i_controller.LightApi).get_lights()
       if l.get_name() == 'Top'][0]
printed = out.get_objects()
calls = top.get_call_list()
print('printed:', printed)
print('calls to Top:', calls)
bad = 0
if printed != [0.0, 0.0, 0.0]:
    print('an unset register does not read as zero')
    bad = 1
if [c[1] for c in calls] != [[1820, 0, 0, 0]]:
    print('wrong colour transmitted')
    bad = 1
sys.exit(bad)
