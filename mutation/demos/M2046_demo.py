"""C01 / C15: the delay requested before a command is the `time` register,
once per transmitted command.  `stage` only fills the in-memory matrix (no
transmission), so a block whose stages sit in a routine must still produce one
delay of `time` and one set_matrix."""
import sys, time
sys.path.insert(0, '/tmp/wm-M06')
from tests import test_module
from bardolph.controller import i_controller
from bardolph.controller.script_job import ScriptJob
from bardolph.fakes.activity_monitor import Action
from bardolph.lib import i_lib, injection
from bardolph.lib.job_control import JobControl

events = []

class RecClock(i_lib.Clock):
    def pause_for(self, delay):
        events.append(('delay', delay))
    def wait_until(self, pattern):
        events.append(('until', pattern))

test_module.configure()
injection.bind_instance(RecClock()).to(i_lib.Clock)

def run(script):
    events.clear()
    job = ScriptJob.from_string(script)
    assert job.program is not None, job.compile_errors
    jobs = JobControl()
    jobs.add_job(job)
    while jobs.has_jobs():
        time.sleep(0.01)
    return list(events)

inline = run('''
    time 2 hue 120 saturation 50 brightness 25 kelvin 2000
    set "Candle" begin
        stage row 1
        stage row 2 column 3
    end
''')
in_routine = run('''
    time 2 hue 120 saturation 50 brightness 25 kelvin 2000
    define st with r begin stage row r end
    define st2 with r c begin stage row r column c end
    set "Candle" begin
        st 1
        st2 2 3
    end
''')
light = injection.provide(i_controller.LightSet).get_light('Candle')
n_matrix = sum(1 for c in light.get_call_list() if c[0] is Action.SET_MATRIX)
print('inline     :', inline)
print('via routine:', in_routine)
print('set_matrix calls:', n_matrix)
ok = inline == [('delay', 2)] and in_routine == [('delay', 2)] and n_matrix == 2
if not ok:
    print('FAIL: extra delays issued for stage inside a routine')
sys.exit(0 if ok else 1)
