"""C20: a request for a manifest-listed path starts the script and the action
page is rendered from the (escaped) manifest entry, without error."""
import os, sys, tempfile, time, types, logging
sys.path.insert(0, '/tmp/wm-M06')
os.chdir('/tmp/wm-M06')

# ---- stub flask -----------------------------------------------------------
rendered = []
flask = types.ModuleType('flask')
class Blueprint:
    def __init__(self, *a, **k): pass
    def route(self, *a, **k):
        return lambda fn: fn
def render_template(name, **kwargs):
    rendered.append((name, kwargs))
    return 'PAGE:' + name
class _Req:
    headers = {'User-Agent': 'demo'}
flask.Blueprint = Blueprint
flask.render_template = render_template
flask.request = _Req()
flask.Flask = object
sys.modules['flask'] = flask

from tests import test_module
from bardolph.lib import injection, settings
from bardolph.fakes import fake_clock, fake_light_api
from bardolph.controller import light_set, i_controller
from bardolph.lib import log_config, std_out_output
from bardolph.runtime import runtime_module

tmp = tempfile.mkdtemp()
with open(os.path.join(tmp, 'a.ls'), 'w') as f:
    f.write('on all\n')

test_module.configure()
settings.using({
    'manifest_file_name': None, 'script_path': tmp,
    'log_level': logging.ERROR, 'log_to_console': True,
    'single_light_discover': True, 'use_fakes': True}).configure()

from web import i_web, web_app, front_end
app = web_app.WebApp()
ctl = web_app.ScriptControl('a.ls', False, 'T<b>', 'a', '#222', 'Linen')
app._scripts['a'] = ctl
injection.bind_instance(app).to(i_web.WebApp)

fe = front_end.FrontEnd()
try:
    page = fe.run_script('a')
except Exception as ex:
    print('FAIL: request for listed path raised {}: {}'.format(
        type(ex).__name__, ex))
    sys.exit(1)
while app._jobs.has_jobs():
    time.sleep(0.01)
name, kwargs = rendered[-1]
ok = (page == 'PAGE:action.html' and name == 'action.html'
      and getattr(kwargs.get('script'), 'path', None) == 'a'
      and kwargs.get('script').title == 'T&lt;b&gt;'
      and kwargs.get('message') == 'Started')
api = injection.provide(i_controller.LightApi)
print('api calls:', api.get_call_list())
print('rendered:', name, {k: (v if isinstance(v, str) else type(v).__name__)
                          for k, v in kwargs.items()})
sys.exit(0 if ok else 1)
