import sys, os, io, contextlib, logging
ROOT = os.path.dirname(os.path.dirname(os.path.abspath(__file__)))
sys.path.insert(0, ROOT)
os.chdir(ROOT)
import bardolph
assert os.path.abspath(bardolph.__file__).startswith(ROOT + os.sep), bardolph.__file__
# C08: the controller may report "no jobs" only when everything has finished.
# The observer samples has_jobs() (which takes no lock) at a thread-switch
# point inside the controller: after _on_execution_done() has cleared the
# active job and released the lock, just before _run_next_job() pops the next
# queued job. At that instant a queued job has still not been executed.
import threading, time
from bardolph.lib.job_control import Job, JobControl

class Body(Job):
    def __init__(self, gate=None):
        self.gate = gate
        self.runs = 0
    def execute(self):
        if self.gate is not None:
            self.gate.wait(5)
        self.runs += 1

samples = []
class Observed(JobControl):
    def _run_next_job(self):
        pending = [a for a in self._queue if a.job.runs == 0]
        if pending:
            samples.append((len(pending), self.has_jobs()))
        super()._run_next_job()

gate = threading.Event()
first, second = Body(gate), Body()
jobs = Observed()
jobs.add_job(first, 'first')
jobs.add_job(second, 'second')
gate.set()
limit = time.time() + 5
while (first.runs + second.runs < 2 or jobs.has_jobs()) and time.time() < limit:
    time.sleep(0.01)
print('runs:', first.runs, second.runs, 'final has_jobs:', jobs.has_jobs())
print('samples (jobs still waiting to run, has_jobs()):', samples)
wrong = [s for s in samples if not s[1]]
ok = first.runs == 1 and second.runs == 1 and not jobs.has_jobs() and samples and not wrong
if wrong:
    print('has_jobs() reported "no jobs" while a queued job had not run yet')
sys.exit(0 if ok else 1)
