"""M1805 (classified OUT-OF-SCOPE / borderline): the only observable change is
the value LEFT in the index variable AFTER `repeat with v from a to a` (one
pass): clean tree leaves a+1, the patch leaves a-1. Values seen inside the loop
and the number of passes are identical. Exits 1 when that leftover differs."""
import os, sys
sys.path.insert(0, os.path.join(os.path.dirname(os.path.abspath(__file__)), ".."))
os.chdir(os.path.join(os.path.dirname(os.path.abspath(__file__)), ".."))
import warnings; warnings.simplefilter("ignore")
import logging
logging.disable(logging.CRITICAL)
from tests import test_module
test_module.configure()
from bardolph.controller.script_job import ScriptJob

job = ScriptJob.from_string(
    'assign n 0 repeat with i from 5 to 5 begin assign n {n + 1} assign seen i end '
    'assign after i')
assert job.program is not None, job.compile_errors
job.execute()
stack = job.get_machine_state().call_stack
n, seen, after = (stack.get_variable(x) for x in ('n', 'seen', 'after'))
assert (n, seen) == (1, 5), (n, seen)      # same in both trees
print('passes', n, 'value in loop', seen, 'value after loop', after)
sys.exit(0 if after == 6 else 1)
