# C19: printf fills positional fields with the following values in order.
import sys, io, contextlib, logging
sys.path.insert(0, '/tmp/wm-M01')
from tests import test_module
from bardolph.controller.script_job import ScriptJob

test_module.configure()
logging.disable(logging.CRITICAL)
job = ScriptJob.from_string(
    'assign x 7 hue 120 printf "{} {} {hue} {x}\\n" 1 {x + 1} '
    'printf "{1}-{0}" 3 4 println')
assert job.program is not None, job.compile_errors
buf = io.StringIO()
with contextlib.redirect_stdout(buf):
    job.execute()
got = buf.getvalue()
want = '1 8 120 7\n4-3\n'
print(repr(got), repr(want))
sys.exit(0 if got == want else 1)
