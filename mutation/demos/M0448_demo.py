"""
M0448: Parser.__init__ no longer creates _error_output; it only exists after
parse() ran.  ScriptJob.load_file() of a file that cannot be opened never gets
to parse() and then calls get_errors() -> AttributeError.  Through the web
front end: a manifest entry whose file is missing.  Clean tree: the request
queues an (empty) job under the path, it finishes and the queue drains.
Mutant: WebApp.queue_script raises AttributeError (HTTP 500).  Exit 0 / 1.
"""
import sys
sys.path.insert(0, '/tmp/wm-M15')
import warnings
warnings.simplefilter('ignore')
import json, logging, os, tempfile, time
import bardolph
assert bardolph.__file__.startswith('/tmp/wm-M15/'), bardolph.__file__

from bardolph.controller import light_set
from bardolph.fakes import fake_clock, fake_light_api
from bardolph.lib import injection, log_config, settings, std_out_output
from bardolph.runtime import runtime_module

work = tempfile.mkdtemp(prefix='m0448_')
os.makedirs(os.path.join(work, 'web'))
os.makedirs(os.path.join(work, 'scripts'))
with open(os.path.join(work, 'web', 'manifest.json'), 'w') as f:
    json.dump([{'file_name': 'gone.ls', 'background': 'b', 'color': 'c'}], f)
os.chdir(work)                                    # manifest is read from ./web

injection.configure()
settings.using({
    'log_level': logging.CRITICAL, 'log_to_console': True,
    'single_light_discover': True, 'use_fakes': True,
    'manifest_file_name': 'manifest.json',
    'script_path': os.path.join(work, 'scripts'),
}).configure()
log_config.configure()
logging.disable(logging.CRITICAL)
fake_clock.configure()
fake_light_api.configure()
light_set.configure()
std_out_output.configure()
runtime_module.configure()

import web.web_app as web_app_mod
assert web_app_mod.__file__.startswith('/tmp/wm-M15/')
from web.web_app import WebApp

app = WebApp()
control = app.get_script_control('gone')          # default path: name - ".ls"
assert control is not None

# Plain parser first: same fault without the web layer.
from bardolph.controller.script_job import ScriptJob
try:
    job = ScriptJob.from_file(os.path.join(work, 'scripts', 'gone.ls'))
    print('ScriptJob.from_file(missing) -> program', job.program)
except Exception as ex:
    print('ScriptJob.from_file(missing) raised {!r}'.format(ex))

try:
    started = app.queue_script(control)
except Exception as ex:
    print('FAIL: request for a manifest path raised {!r}'.format(ex))
    sys.exit(1)

deadline = time.time() + 5
while app._jobs.has_jobs() and time.time() < deadline:
    time.sleep(0.01)
if started and not app._jobs.has_jobs():
    print('OK: job queued, ran (nothing to do) and the queue drained')
    sys.exit(0)
print('FAIL: started={} has_jobs={}'.format(started, app._jobs.has_jobs()))
sys.exit(1)
