"""C12 (discovery never raises) / C18 (capture of multizone lights):
discovery through the real LifxLanApi / lifx_lan_light wrappers, with the
lifxlan network object replaced by an in-memory stub in which every request
succeeds.  A population containing a multizone light must be discovered and
its zones captured."""
import sys
sys.path.insert(0, '.')
import lifxlan

ZONES = [[z * 1000, 65535, 30000 + z, 3500] for z in range(8)]


class StubDevice:
    def __init__(self, label, features):
        self._label, self._features = label, features
        self.zones = [list(c) for c in ZONES]
    def get_label(self): return self._label
    def get_group(self): return 'g'
    def get_location(self): return 'l'
    def get_product_features(self): return self._features
    def get_product_name(self): return 'stub'
    def get_color(self): return [1, 2, 3, 4]
    def get_power(self): return 65535
    def get_color_zones(self, first=None, last=None):
        return self.zones[first:last]


class StubLan:
    def __init__(self, *_): pass
    def get_lights(self):
        return [StubDevice('bulb', {'multizone': False}),
                StubDevice('strip', {'multizone': True})]


lifxlan.LifxLAN = StubLan

import logging
from bardolph.controller import i_controller, lifx_lan_api, light_set
from bardolph.controller.snapshot import ScriptSnapshot
from bardolph.lib import injection, settings

injection.configure()
settings.using({'single_light_discover': True,
                'log_level': logging.ERROR}).configure()
lifx_lan_api.configure()

lights = light_set.LightSet()
try:
    ok = lights.discover()
except Exception as ex:
    print('FAIL: discovery raised {!r}'.format(ex))
    sys.exit(1)
if not ok or list(lights.get_light_names()) != ['bulb', 'strip']:
    print('FAIL: discovery result', ok, list(lights.get_light_names()))
    sys.exit(1)
injection.bind_instance(lights).to(i_controller.LightSet)
try:
    text = ScriptSnapshot().generate(None).text
except Exception as ex:
    print('FAIL: capture raised {!r}'.format(ex))
    sys.exit(1)
for z, c in enumerate(ZONES):
    line = 'hue {} saturation {} brightness {} kelvin {} set "strip" zone {}\n'\
        .format(*c, z)
    if line not in text:
        print('FAIL: zone {} missing from capture:\n{}'.format(z, text))
        sys.exit(1)
print('ok')
sys.exit(0)
