"""
C18 demo: capture a snapshot script (what `lscap -s` prints), change every
light, replay the script, and require that the captured state is restored.
Exit 0 = property holds, 1 = violated.
"""
import logging
import os
import sys

sys.path.insert(0, os.getcwd())

from bardolph.controller import i_controller, light_set
from bardolph.controller.color_matrix import ColorMatrix
from bardolph.controller.script_job import ScriptJob
from bardolph.controller.snapshot import ScriptSnapshot
from bardolph.fakes import fake_clock, fake_light_api
from bardolph.fakes.activity_monitor import Action
from bardolph.fakes.fake_light_api import LightType
from bardolph.lib import injection, log_config, settings, std_out_output
from bardolph.lib.injection import provide
from bardolph.runtime import runtime_module


def configure():
    injection.configure()
    settings.using({
        'log_level': logging.CRITICAL, 'log_to_console': True,
        'single_light_discover': True, 'use_fakes': True,
        'matrix_init_color': [0, 0, 0, 0]}).configure()
    log_config.configure()
    fake_clock.configure()
    fake_light_api.using((
        ('Alpha', 'G1', 'L1'),
        ('Beta', 'G1', 'L1'),
        ('Strip', 'G2', 'L1', LightType.MULTI_ZONE, 16),
        ('Tile', 'G2', 'L2', LightType.MATRIX, 3, 4),
    )).configure()
    light_set.configure()
    std_out_output.configure()
    runtime_module.configure()


def state(lights):
    result = {}
    for light in lights:
        if isinstance(light, i_controller.MultizoneLight):
            result[light.get_name()] = [list(c) for c in light._zone_colors]
        elif isinstance(light, i_controller.MatrixLight):
            result[light.get_name()] = [
                list(c) for c in light._matrix.as_list()]
        else:
            result[light.get_name()] = list(light._color)
    return result


def main():
    configure()
    lights = provide(i_controller.LightApi).get_lights()
    by_name = {light.get_name(): light for light in lights}

    # The state to be captured.
    by_name['Alpha']._color = [1000, 2000, 3000, 3500]
    by_name['Alpha']._power = 65535
    by_name['Beta']._color = [65535, 0, 65535, 9000]
    by_name['Beta']._power = 0
    by_name['Strip']._zone_colors = [
        [z * 4000, 65535 - z, z + 1, 2500 + z] for z in range(16)]
    by_name['Tile']._matrix = ColorMatrix.new_from_iterable(
        3, 4, [[n * 5000, n + 7, 65535 - n * 3, 2000 + n] for n in range(12)])
    captured = state(lights)

    try:
        script = ScriptSnapshot().generate(None).text
    except Exception as ex:
        print('FAIL: capture raised', repr(ex))
        return 1

    # A different state at replay time.
    by_name['Alpha']._color = [5, 6, 7, 8]
    by_name['Beta']._color = [9, 10, 11, 12]
    by_name['Strip']._zone_colors = [[1, 2, 3, 4] for _ in range(16)]
    by_name['Tile']._matrix = ColorMatrix.new_from_constant(3, 4, [9, 9, 9, 9])
    for light in lights:
        light.get_call_list().clear()

    job = ScriptJob.from_string(script)
    if job.program is None:
        print('FAIL: snapshot script does not compile:', job.compile_errors)
        print(script)
        return 1
    job.execute()

    ok = True
    replayed = state(lights)
    for name, want in captured.items():
        if replayed[name] != want:
            ok = False
            print('FAIL: "{}" not restored\n  want {}\n  got  {}'.format(
                name, want, replayed[name]))
    for name, want_power in (('Alpha', 1), ('Beta', 0)):
        powers = [call[1] for call in by_name[name].get_call_list()
                  if call[0] is Action.SET_POWER]
        if powers[-1:] != [want_power]:
            ok = False
            print('FAIL: "{}" power not restored: {}'.format(name, powers))
    print('OK' if ok else 'C18 violated')
    return 0 if ok else 1


if __name__ == '__main__':
    sys.exit(main())
