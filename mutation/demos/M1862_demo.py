"""C18: the script produced by ScriptSnapshot (lscap -s / web Capture), replayed
against the same lights in another state, must compile and restore every plain
light, every zone of every multizone light and every matrix cell."""
import logging
import random
import sys
import warnings
warnings.simplefilter('ignore')
sys.path.insert(0, '/tmp/wm-M04')

from bardolph.controller import i_controller, light_set
from bardolph.controller.color_matrix import ColorMatrix
from bardolph.controller.script_job import ScriptJob
from bardolph.controller.snapshot import ScriptSnapshot
from bardolph.fakes import fake_clock, fake_light, fake_light_api
from bardolph.fakes.fake_light_api import LightType
from bardolph.lib import injection, log_config, settings, std_out_output
from bardolph.lib.injection import provide
from bardolph.runtime import runtime_module

# The stock fake light forgets its power level; remember it.
def _set_power(self, power, duration):
    self._power = 65535 if power else 0
fake_light.Light.set_power = _set_power

injection.configure()
settings.using({
    'log_level': logging.ERROR, 'log_to_console': True,
    'single_light_discover': True, 'use_fakes': True}).configure()
log_config.configure()
fake_clock.configure()
fake_light_api.using((
    ('plain a', 'g', 'l'),
    ('plain b', 'g', 'l'),
    ('strip', 'g', 'l', LightType.MULTI_ZONE, 16),
    ('tile', 'g', 'l', LightType.MATRIX, 2, 3),
)).configure()
light_set.configure()
std_out_output.configure()
runtime_module.configure()

rnd = random.Random(4)
def rcolor():
    return [rnd.randrange(65536) for _ in range(4)]

lights = {l.get_name(): l for l in provide(i_controller.LightApi).get_lights()}

def randomise():
    for name in ('plain a', 'plain b'):
        lights[name]._color = rcolor()
    lights['plain a']._power = 65535
    lights['plain b']._power = 0
    lights['strip']._zone_colors = [rcolor() for _ in range(16)]
    lights['tile']._matrix = ColorMatrix.new_from_iterable(
        2, 3, [rcolor() for _ in range(6)])

def state():
    return {
        'plain a': (list(lights['plain a']._color), lights['plain a']._power),
        'plain b': (list(lights['plain b']._color), lights['plain b']._power),
        'strip': [list(c) for c in lights['strip']._zone_colors],
        'tile': [list(c) for c in lights['tile']._matrix.as_list()]}

randomise()
captured = state()
script = ScriptSnapshot().generate(None).text

# different state at replay time
randomise()
lights['plain a']._power = 0
lights['plain b']._power = 65535

job = ScriptJob.from_string(script)
if job.program is None:
    print('captured script does not compile:', job.compile_errors)
    print(script)
    sys.exit(1)
job.execute()
after = state()
bad = [k for k in captured if captured[k] != after[k]]
if bad:
    for k in bad:
        print('NOT RESTORED', k, '\n  captured', captured[k], '\n  replayed', after[k])
    sys.exit(1)
print('all lights restored')
sys.exit(0)
