import sys, os, io, contextlib, logging
ROOT = os.path.dirname(os.path.dirname(os.path.abspath(__file__)))
sys.path.insert(0, ROOT)
os.chdir(ROOT)
import bardolph
assert os.path.abspath(bardolph.__file__).startswith(ROOT + os.sep), bardolph.__file__
# C09 / C20: stop-current and stop-all must end the running script promptly,
# send no further commands, and let the next queued job start.
import time
from tests import test_module
from bardolph.controller.script_job import ScriptJob
from bardolph.controller import i_controller
from bardolph.lib.injection import provide
from bardolph.lib.job_control import JobControl
logging.disable(logging.CRITICAL)

def wait_for(pred, secs=3.0):
    limit = time.time() + secs
    while time.time() < limit:
        if pred():
            return True
        time.sleep(0.01)
    return pred()

def scenario(stop_all):
    test_module.configure()
    jobs = JobControl()
    forever = ScriptJob.from_string('repeat begin on "Top" end')
    after = ScriptJob.from_string('on "Bottom"')
    lights = {l.get_name(): l for l in provide(i_controller.LightApi).get_lights()}
    jobs.add_job(forever, 'forever')
    jobs.add_job(after, 'after')
    assert wait_for(lambda: len(lights['Top'].get_call_list()) > 0)
    if stop_all:
        jobs.clear_queue()
        accepted = jobs.stop_current()
        jobs.stop_background()
    else:
        accepted = jobs.stop_current()
    stopped = wait_for(lambda: not jobs.is_running('forever'))
    drained = wait_for(lambda: not jobs.has_jobs()) if stopped else False
    after_ran = len(lights['Bottom'].get_call_list())
    # never leave the spinning job behind
    forever.request_stop()
    jobs.clear_queue()
    wait_for(lambda: not jobs.has_jobs())
    ok = accepted and stopped and drained and after_ran == (0 if stop_all else 1)
    print('{}: accepted={} running-script-ended={} drained={} next-job-runs={} {}'.format(
        'stop-all' if stop_all else 'stop-current', accepted, stopped, drained,
        after_ran, 'ok' if ok else 'WRONG'))
    return ok

results = [scenario(False), scenario(True)]
sys.exit(0 if all(results) else 1)
