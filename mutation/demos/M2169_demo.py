"""M2169 / C12: discovery never raises. With the shipped configuration
(default_num_lights = None) and every network request succeeding, discover()
over the real LifxLanApi must complete."""
import os, sys
sys.path.insert(0, os.path.join(os.path.dirname(os.path.abspath(__file__)), '..'))
os.chdir(os.path.join(os.path.dirname(os.path.abspath(__file__)), '..'))
import logging
logging.disable(logging.CRITICAL)
import lifxlan


class Impl:
    def __init__(self, label): self._label = label
    def get_label(self): return self._label
    def get_group(self): return 'grp'
    def get_location(self): return 'loc'
    def get_product_features(self): return {}
    def get_product_name(self): return 'fake product'

class FakeLan:
    def __init__(self, num_lights=None): pass
    def get_lights(self): return [Impl('B'), Impl('A')]

lifxlan.LifxLAN = FakeLan

from bardolph.controller import config_values, lifx_lan_api
from bardolph.controller.light_set import LightSet
from bardolph.lib import injection, settings

injection.configure()
# The functional defaults shipped with the package (default_num_lights: None).
settings.using(config_values.functional).add_overrides(
    {'single_light_discover': True, 'use_fakes': False}).configure()
lifx_lan_api.configure()

status = 0
for overrides in ({}, {'default_num_lights': 5}):
    injection.configure()
    settings.using(config_values.functional).add_overrides(
        {'single_light_discover': True, 'use_fakes': False}
    ).add_overrides(overrides).configure()
    lifx_lan_api.configure()
    light_set = LightSet()
    try:
        result = light_set.discover()
    except Exception as ex:
        print('FAIL {}: discover() raised {}: {}'.format(
            overrides, type(ex).__name__, ex))
        status = 1
        continue
    if list(light_set.get_light_names()) != ['A', 'B']:
        print('FAIL: lights', list(light_set.get_light_names()))
        status = 1
    else:
        print('OK', overrides, 'discover() ->', result)
sys.exit(status)
