import os, sys
ROOT = os.path.dirname(os.path.dirname(os.path.abspath(__file__)))
sys.path.insert(0, ROOT)
os.chdir(ROOT)
import warnings; warnings.simplefilter("ignore")
def fail(msg):
    print("FAIL:", msg); sys.exit(1)

from tests import test_module
from bardolph.parser.parse import Parser
test_module.configure()
# docs/language.rst: registers can not be used as values for zone, row or column
for src in ('set "Strip" zone brightness', 'hue 3 set "Strip" zone hue 5'):
    p = Parser()
    if p.parse(src):
        fail("register accepted as a zone number: %r" % src)
    print(src, "->", p.get_errors().strip())
p = Parser()
assert p.parse('define z 2 set "Strip" zone z 5 and "Strip" zone {z + 1}')
print("OK")
