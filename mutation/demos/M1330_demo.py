# Demo for M1330 (C20): a request for a manifest-listed path starts that script; unlisted paths start nothing.
import os, sys
ROOT = os.path.dirname(os.path.dirname(os.path.abspath(__file__)))
os.chdir(ROOT)
sys.path.insert(0, ROOT)
import warnings; warnings.simplefilter("ignore")
import bardolph
assert bardolph.__file__.startswith(ROOT), bardolph.__file__


import json, logging, tempfile, time, types

# --- stub of the flask module (flask is not installed) ---
rendered = []
flask = types.ModuleType("flask")
class Blueprint:
    def __init__(self, *_, **__): pass
    def route(self, *_, **__): return lambda fn: fn
def render_template(name, **kwargs):
    rendered.append((name, kwargs))
    return name
flask.Blueprint = Blueprint
flask.render_template = render_template
flask.request = types.SimpleNamespace(headers={"User-Agent": "x"})
sys.modules["flask"] = flask

from bardolph.controller import i_controller, light_set
from bardolph.fakes import fake_clock, fake_light_api
from bardolph.lib import injection, log_config, settings, std_out_output
from bardolph.runtime import runtime_module

import atexit, shutil
tmp = tempfile.mkdtemp(dir=os.path.join(ROOT, "mutants"))
atexit.register(shutil.rmtree, tmp, True)

def configure(manifest):
    manifest_name = os.path.join(tmp, "manifest.json")
    with open(manifest_name, "w") as out:
        json.dump(manifest, out)
    injection.configure()
    settings.using({
        "log_level": logging.CRITICAL, "log_to_console": True,
        "single_light_discover": True, "use_fakes": True, "sleep_time": 0.01,
        "script_path": tmp, "manifest_file_name": manifest_name
    }).configure()
    log_config.configure()
    fake_clock.configure()
    fake_light_api.configure()
    light_set.configure()
    std_out_output.configure()
    runtime_module.configure()
    from web import i_web, web_app
    app = web_app.WebApp()
    injection.bind_instance(app).to(i_web.WebApp)
    from web import front_end
    return app, front_end.fe

def fail(msg):
    print("FAIL:", msg)
    sys.exit(1)

with open(os.path.join(tmp, 'go.ls'), 'w') as out:
    out.write('hue 120 saturation 50 brightness 25 kelvin 2700 set "Top"\n')
app, fe = configure([
    {'file_name': 'go.ls', 'background': '#222', 'color': '<b>'}])
from bardolph.lib.injection import provide
top = provide(i_controller.LightSet).get_light('Top')

page = fe.run_script('nosuch')
if page != 'index.html' or app._jobs.has_jobs():
    fail('unlisted path started something')
page = fe.run_script('go')
deadline = time.time() + 10
while app._jobs.has_jobs() and time.time() < deadline:
    time.sleep(0.01)
print(page, top.get_call_list())
if page != 'action.html':
    fail('request for listed path "go" did not start the script')
if len(top.get_call_list()) != 1:
    fail('script go.ls did not run exactly once')
listed = [(s.path, s.title, s.color) for s in app.get_script_list()]
if listed != [('go', 'Go', '&lt;b&gt;')]:
    fail('script list wrong: {}'.format(listed))
print('OK')
sys.exit(0)
