import os, sys
ROOT = os.path.dirname(os.path.dirname(os.path.abspath(__file__)))
sys.path.insert(0, ROOT)
os.chdir(ROOT)
import warnings; warnings.simplefilter("ignore")
def fail(msg):
    print("FAIL:", msg); sys.exit(1)

import threading, time
from bardolph.lib.job_control import JobControl, Job

class Blocker(Job):
    def __init__(self):
        self.started = threading.Event(); self.go = threading.Event()
    def execute(self):
        self.started.set(); self.go.wait(5)
    def request_stop(self):
        self.go.set()

jc = JobControl()
bg = Blocker()
jc.spawn_job(bg, "bg-job")
bg.started.wait(5)
if not jc.is_running("bg-job"):
    fail("background job not reported as running under its name 'bg-job'; names: %s"
         % [a.name for a in jc.get_background()])
q = Blocker()
jc.add_job(q, "queued-job")
q.started.wait(5)
if not jc.is_running("queued-job"):
    fail("queued job not reported under its name")
if not jc.stop_job("bg-job") or not jc.stop_job("queued-job"):
    fail("stop_job by name found nothing")
deadline = time.time() + 5
while jc.has_jobs() and time.time() < deadline:
    time.sleep(0.01)
if jc.has_jobs():
    fail("jobs did not drain")
print("OK")
