# C12: discovery never raises (and a matrix light on the network becomes a
# usable MatrixLight with its height/width).
import sys, os, logging
sys.path.insert(0, '/tmp/wm-M12')
os.chdir('/tmp/wm-M12')
import bardolph
assert bardolph.__file__.startswith('/tmp/wm-M12')

from bardolph.lib import injection, settings
from bardolph.lib.injection import bind_instance
from bardolph.controller import i_controller, lifx_lan_api, lifx_lan_light
from bardolph.controller.light_set import LightSet


class Chain:
    start_index = 0
    tile_devices = [{'width': 5, 'height': 6}]

class Impl:
    # stand-in for a lifxlan device object; no network
    def __init__(self, label, features):
        self._label, self._features = label, features
    def get_label(self): return self._label
    def get_group(self): return 'g'
    def get_location(self): return 'l'
    def get_product_features(self): return self._features
    def get_product_name(self): return 'fake'
    def req_with_resp(self, *a, **k): return Chain()

class Lan:
    def get_lights(self):
        return [Impl('bulb', {'color': True, 'multizone': False,
                              'matrix': False}),
                Impl('candle', {'color': True, 'multizone': False,
                                'matrix': True})]

injection.configure()
settings.using({'default_num_lights': None}).configure()
api = lifx_lan_api.LifxLanApi.__new__(lifx_lan_api.LifxLanApi)
api._lifxlan = Lan()
bind_instance(api).to(i_controller.LightApi)

ls = LightSet()
try:
    result = ls.discover()
except Exception as ex:
    print('FAIL: discover() raised', type(ex).__name__, ex)
    sys.exit(1)
candle = ls.get_light('candle')
ok = (result is True and isinstance(candle, i_controller.MatrixLight)
      and candle.get_height() == 6 and candle.get_width() == 5
      and list(ls.get_light_names()) == ['bulb', 'candle'])
print('OK' if ok else 'FAIL: wrong discovery result')
sys.exit(0 if ok else 1)
