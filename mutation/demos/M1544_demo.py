"""M1544: Snapshot.__init__ no longer sets _brief, which TextSnapshot reads in
start_snapshot(): WebApp.get_status() - and with it the /status page - raises
AttributeError instead of rendering."""
import sys, types
sys.path.insert(0, '/tmp/wm-M11')
import bardolph
assert bardolph.__file__.startswith('/tmp/wm-M11/'), bardolph.__file__

# Stub flask: render_template returns what it was handed.
flask = types.ModuleType('flask')
class Blueprint:
    def __init__(self, *_, **__): pass
    def route(self, *_, **__):
        return lambda fn: fn
class _Request:
    headers = {'User-Agent': 'Mozilla/5.0 (X11; Linux)'}
flask.Blueprint = Blueprint
flask.request = _Request()
flask.render_template = lambda template, **kw: (template, kw)
sys.modules['flask'] = flask

from tests import test_module
from bardolph.lib import injection, settings

test_module.configure()
# No manifest file: the status page doesn't need one.
settings.Settings._the_config['manifest_file_name'] = None

from web import front_end, i_web, web_app
assert web_app.__file__.startswith('/tmp/wm-M11/'), web_app.__file__
injection.bind_instance(web_app.WebApp()).to(i_web.WebApp)

ok = True
try:
    template, params = front_end.fe.status()
    text = params['data']['lights']
    for name in ('Top', 'Candle', 'Strip', 'table-7', 'Groups', 'Locations'):
        if name not in text:
            print('status text lacks', name)
            ok = False
except Exception as ex:
    print('status page raised {}: {}'.format(type(ex).__name__, ex))
    ok = False
print('OK' if ok else 'PROPERTY C20 VIOLATED')
sys.exit(0 if ok else 1)
