"""
M0033: Registers.time initial value 0.0 -> 1.0.

C01: the delay requested before each command is the one determined by the
register values at that moment. A script that never sets `time` must request
no delay before `on all`; with the patch every command is preceded by a
one-second delay (and `time` reads as 1.0).
Exit 0 = property holds, 1 = violated.
"""
import sys
sys.path.insert(0, '/tmp/wm-M13')
import bardolph
assert bardolph.__file__.startswith('/tmp/wm-M13'), bardolph.__file__

from bardolph.controller.script_job import ScriptJob
from bardolph.lib import i_lib, injection
from tests import test_module

test_module.configure()
output = test_module.replace_print()

delays = []


class RecordingClock(i_lib.Clock):
    def pause_for(self, delay):
        delays.append(delay)


injection.bind(RecordingClock).to(i_lib.Clock)

job = ScriptJob.from_string('on all println time off all')
assert job.program is not None, job.compile_errors
job.execute()

printed = output.get_objects() if hasattr(output, 'get_objects') else None
print('delays requested:', delays, 'printed:', printed)

# Sanity: an explicit time is honoured in either tree.
delays2 = []
delays, saved = delays2, delays
job = ScriptJob.from_string('time 2 on all')
job.execute()
assert delays2 == [2], delays2

if saved != []:
    print('VIOLATION: a script that never set "time" asked for delays', saved)
    sys.exit(1)
print('ok')
sys.exit(0)
