# Demo for M0883 (C20/C18): the Capture page renders without error and writes a replayable snapshot script.
import os, sys
ROOT = os.path.dirname(os.path.dirname(os.path.abspath(__file__)))
os.chdir(ROOT)
sys.path.insert(0, ROOT)
import warnings; warnings.simplefilter("ignore")
import bardolph
assert bardolph.__file__.startswith(ROOT), bardolph.__file__


import json, logging, tempfile, time, types

# --- stub of the flask module (flask is not installed) ---
rendered = []
flask = types.ModuleType("flask")
class Blueprint:
    def __init__(self, *_, **__): pass
    def route(self, *_, **__): return lambda fn: fn
def render_template(name, **kwargs):
    rendered.append((name, kwargs))
    return name
flask.Blueprint = Blueprint
flask.render_template = render_template
flask.request = types.SimpleNamespace(headers={"User-Agent": "x"})
sys.modules["flask"] = flask

from bardolph.controller import i_controller, light_set
from bardolph.fakes import fake_clock, fake_light_api
from bardolph.lib import injection, log_config, settings, std_out_output
from bardolph.runtime import runtime_module

import atexit, shutil
tmp = tempfile.mkdtemp(dir=os.path.join(ROOT, "mutants"))
atexit.register(shutil.rmtree, tmp, True)

def configure(manifest):
    manifest_name = os.path.join(tmp, "manifest.json")
    with open(manifest_name, "w") as out:
        json.dump(manifest, out)
    injection.configure()
    settings.using({
        "log_level": logging.CRITICAL, "log_to_console": True,
        "single_light_discover": True, "use_fakes": True, "sleep_time": 0.01,
        "script_path": tmp, "manifest_file_name": manifest_name
    }).configure()
    log_config.configure()
    fake_clock.configure()
    fake_light_api.configure()
    light_set.configure()
    std_out_output.configure()
    runtime_module.configure()
    from web import i_web, web_app
    app = web_app.WebApp()
    injection.bind_instance(app).to(i_web.WebApp)
    from web import front_end
    return app, front_end.fe

def fail(msg):
    print("FAIL:", msg)
    sys.exit(1)

app, fe = configure([])
try:
    page = fe.capture()
except Exception as ex:
    fail('capture page raised {!r}'.format(ex))
if page != 'index.html':
    fail('capture did not render the index page')
name = os.path.join(tmp, '__snapshot__.ls')
if not os.path.isfile(name):
    fail('no snapshot script written to ' + name)
from bardolph.controller.script_job import ScriptJob
job = ScriptJob.from_file(name)
if not job.program:
    fail('snapshot script does not compile')
print('OK')
sys.exit(0)
