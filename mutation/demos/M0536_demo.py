"""C18: a captured snapshot script must restore every matrix cell."""
import sys, time
sys.path.insert(0, '/tmp/wm-M06')
from tests import test_module
from bardolph.controller import i_controller
from bardolph.controller.color_matrix import ColorMatrix
from bardolph.controller.snapshot import ScriptSnapshot
from bardolph.controller.script_job import ScriptJob
from bardolph.lib.injection import provide
from bardolph.lib.job_control import JobControl

test_module.configure()
light = provide(i_controller.LightSet).get_light('Candle')
h, w = light.get_height(), light.get_width()
captured = [[1000 + 10 * i, 2000 + i, 3000 + i, 2500 + i] for i in range(h * w)]
light.set_matrix(ColorMatrix.new_from_iterable(h, w, captured))

script = ScriptSnapshot().generate('Candle').text

# put the light into some other state
light.set_matrix(ColorMatrix.new_from_constant(h, w, [7, 7, 7, 7]))

job = ScriptJob.from_string(script)
if job.program is None:
    print('snapshot script does not compile:', job.compile_errors)
    sys.exit(1)
jobs = JobControl()
jobs.add_job(job)
while jobs.has_jobs():
    time.sleep(0.01)

actual = light.get_matrix().get_colors()
if actual != captured:
    print('FAIL: matrix not restored')
    print(' first cells now :', actual[:3])
    print(' first cells want:', captured[:3])
    sys.exit(1)
print('ok')
sys.exit(0)
