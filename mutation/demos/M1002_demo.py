"""M1002 / C12: discovery never raises, even if a multizone light does not
answer the zone query (all 3 attempts of that request fail)."""
import os, sys
sys.path.insert(0, os.path.join(os.path.dirname(os.path.abspath(__file__)), '..'))
os.chdir(os.path.join(os.path.dirname(os.path.abspath(__file__)), '..'))
import logging
logging.disable(logging.CRITICAL)
import lifxlan
from lifxlan.errors import WorkflowException


class Impl:
    def __init__(self, label, features):
        self._label, self._features = label, features
        self.zone_queries = 0
    def get_label(self): return self._label
    def get_group(self): return 'grp'
    def get_location(self): return 'loc'
    def get_product_features(self): return self._features
    def get_product_name(self): return 'fake product'
    def get_color_zones(self, first=None, last=None):
        self.zone_queries += 1
        raise WorkflowException('no answer')   # the light does not answer


strip = Impl('Strip', {'multizone': True})
plain = Impl('Plain', {})

class FakeLan:
    def __init__(self, num_lights=None): pass
    def get_lights(self): return [plain, strip]

lifxlan.LifxLAN = FakeLan

from bardolph.controller import i_controller, lifx_lan_api
from bardolph.controller.light_set import LightSet
from bardolph.lib import injection, settings

injection.configure()
settings.using({'single_light_discover': True, 'use_fakes': False}).configure()
lifx_lan_api.configure()

light_set = LightSet()
try:
    result = light_set.discover()
except Exception as ex:
    print('FAIL: discover() raised {}: {}'.format(type(ex).__name__, ex))
    sys.exit(1)
if strip.zone_queries > 3:
    print('FAIL: more than 3 attempts', strip.zone_queries)
    sys.exit(1)
if list(light_set.get_light_names()) != ['Plain', 'Strip']:
    print('FAIL: lights', list(light_set.get_light_names()))
    sys.exit(1)
print('OK, discover() returned', result, 'after', strip.zone_queries, 'zone queries')
sys.exit(0)
