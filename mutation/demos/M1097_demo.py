"""C07 (also C14): a raw colour read from a light and expressed in logical
units converts back to the same raw colour.  Red (raw hue 0) and raw hue 100
must survive `get L` / `set L` in logical units, and `units raw hue 0 ... units
logical set L` must still transmit hue 0."""
import sys
sys.path.insert(0, '.')
from tests import test_module
from bardolph.controller import i_controller, light_set
from bardolph.controller.script_job import ScriptJob
from bardolph.fakes import fake_light_api
from bardolph.lib.injection import provide

test_module.configure()
fake_light_api.using((('plain', 'g', 'l'), ('other', 'g', 'l'))).configure()
light_set.configure()
lights = provide(i_controller.LightSet)
bad = []
for raw_hue in (0, 100, 181, 182, 30000):
    src = [raw_hue, 65535, 32768, 3500]
    lights.get_light('plain').set_color(src, 0)
    job = ScriptJob.from_string('get "plain" set "other"')
    assert job.program is not None, job.compile_errors
    job.execute()
    got = lights.get_light('other').get_color()
    if got != src:
        bad.append(('get/set', src, got))

job = ScriptJob.from_string(
    'units raw hue 0 saturation 65535 brightness 65535 kelvin 2700 '
    'units logical set "other"')
job.execute()
got = lights.get_light('other').get_color()
if got != [0, 65535, 65535, 2700]:
    bad.append(('units raw->logical', [0, 65535, 65535, 2700], got))

if bad:
    for b in bad:
        print('FAIL: {}: expected {}, light received {}'.format(*b))
    sys.exit(1)
print('ok')
sys.exit(0)
