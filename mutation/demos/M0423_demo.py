"""M0423: Registers.__init__ no longer creates 'last_zone'.
printf with the named field {last_zone} must print the register's current value (0 in a
fresh machine) and the script must go on; with the patch the VM faults
(AttributeError caught in Machine.run), nothing is printed and the following
'set all' is never executed.  Exit 0 = property holds, 1 = violated."""
import sys
sys.path.insert(0, '/tmp/wm-M14')
import bardolph
assert bardolph.__file__.startswith('/tmp/wm-M14/'), bardolph.__file__

from bardolph.controller import i_controller
from bardolph.controller.script_job import ScriptJob
from bardolph.lib.injection import provide
from tests import test_module

test_module.configure()
output = test_module.replace_print()

script = 'printf "z={last_zone}" hue 120 saturation 50 brightness 25 kelvin 2700 set all'
job = ScriptJob.from_string(script)
assert job.program is not None, job.compile_errors
job.execute()

printed = output.get_objects()
api_calls = provide(i_controller.LightApi).get_call_list()
print('printed:', printed)
print('global calls:', api_calls)
ok = printed == ['z=0'] and len(api_calls) == 1
print('OK' if ok else 'VIOLATION: printf {last_zone} did not print 0 / script aborted')
sys.exit(0 if ok else 1)
