import os, sys
ROOT = os.path.dirname(os.path.dirname(os.path.abspath(__file__)))
sys.path.insert(0, ROOT)
os.chdir(ROOT)
import warnings; warnings.simplefilter("ignore")
def fail(msg):
    print("FAIL:", msg); sys.exit(1)

from tests import test_module
from bardolph.parser.parse import Parser
from bardolph.vm.vm_codes import OpCode
test_module.configure()
p = Parser()
ok = p.parse('time at 1:00 or 2:3* on all')
if not ok:
    fail("valid 'time at P1 or P2' rejected: " + str(p.get_errors()))
pats = [i for i in p.get_program() if i.op_code is OpCode.TIME_PATTERN]
if len(pats) != 2:
    fail("expected 2 TIME_PATTERN instructions")
print("OK")
