import sys, os, io, contextlib, logging
ROOT = os.path.dirname(os.path.dirname(os.path.abspath(__file__)))
sys.path.insert(0, ROOT)
os.chdir(ROOT)
import bardolph
assert os.path.abspath(bardolph.__file__).startswith(ROOT + os.sep), bardolph.__file__
# C18: the captured script always compiles and, replayed, restores the state.
from tests import test_module
from bardolph.controller.snapshot import ScriptSnapshot
from bardolph.controller.script_job import ScriptJob
from bardolph.controller import i_controller
from bardolph.lib.injection import provide
logging.disable(logging.CRITICAL)
test_module.configure()
lights = provide(i_controller.LightApi).get_lights()
top = [l for l in lights if l.get_name() == 'Top'][0]
top.set_color([11, 22, 33, 4000], 0)
text = ScriptSnapshot().generate(None).text
print(text[-120:])
job = ScriptJob.from_string(text)
if job.program is None:
    print('captured script does not compile:', job.compile_errors)
    sys.exit(1)
top.set_color([1, 2, 3, 4], 0)
job.execute()
print('Top after replay', top.get_color())
sys.exit(0 if top.get_color() == [11, 22, 33, 4000] else 1)
