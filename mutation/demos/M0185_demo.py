"""C06: a quoted string given to a colour register (hue "abc") breaks a
documented rule and must be rejected with a line-numbered message; anything
the compiler accepts must run without an internal VM fault."""
import logging
import sys
import warnings
warnings.simplefilter('ignore')
sys.path.insert(0, '/tmp/wm-M04')

from tests import test_module
from bardolph.controller.script_job import ScriptJob

test_module.configure()

faults = []
class Catcher(logging.Handler):
    def emit(self, record):
        msg = record.getMessage()
        if 'Machine stopped due to' in msg:
            faults.append(msg)
logging.getLogger().addHandler(Catcher())
logging.getLogger().setLevel(logging.ERROR)

SCRIPT = 'hue "abc"\nset all\n'
job = ScriptJob.from_string(SCRIPT)
if job.program is None:
    errors = job.compile_errors
    ok = 'Line 1' in errors
    print('rejected:', errors.strip())
    sys.exit(0 if ok else 1)

print('ACCEPTED; running it')
job.execute()
if faults:
    print('internal VM fault on an accepted script:', faults)
    sys.exit(1)
sys.exit(0)
