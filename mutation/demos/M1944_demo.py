"""M1944: the blue register must start at zero (docs: "Any uninitialized values
default to zero").  Reading it before it was ever set must give 0: printed
value, assigned value and a colour computed from it."""
import sys
sys.path.insert(0, '/tmp/wm-M11')
import bardolph
assert bardolph.__file__.startswith('/tmp/wm-M11/'), bardolph.__file__

from tests import test_module
from bardolph.controller import i_controller
from bardolph.controller.script_job import ScriptJob
from bardolph.fakes.activity_monitor import Action
from bardolph.lib.injection import provide

test_module.configure()
output = test_module.replace_print()
job = ScriptJob.from_string(
    'println blue  assign x {blue * 100}  '
    'hue x saturation 100 brightness 100 kelvin 2700 set "Top"')
assert job.program is not None, job.compile_errors
job.execute()

ok = True
printed = output.get_objects()
if printed != [0.0, '\n']:
    print('println blue wrote', printed, 'expected [0.0, newline]')
    ok = False
x = job.get_machine_state().call_stack.get_variable('x')
if x != 0:
    print('x =', x, 'expected 0')
    ok = False
top = provide(i_controller.LightSet).get_light('Top')
expected = [(Action.SET_COLOR, [0, 65535, 65535, 2700], 0)]
if top.get_call_list() != expected:
    print('set "Top" sent', top.get_call_list(), 'expected', expected)
    ok = False
print('OK' if ok else 'PROPERTY C01 VIOLATED')
sys.exit(0 if ok else 1)
