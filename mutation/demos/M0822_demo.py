"""M0822: lifx_lan_light.Light.__init__ no longer keeps the lifxlan device.
A plain 'set "A"' / 'on "A"' must hand colour [21845, 65535, 32768, 2700] with
duration 2000 ms, and power 65535, to the device.  With the patch every request
to a real light raises AttributeError, the VM aborts, nothing is transmitted.
Exit 0 = property holds, 1 = violated."""
import sys
sys.path.insert(0, '/tmp/wm-M14')
import bardolph
assert bardolph.__file__.startswith('/tmp/wm-M14/'), bardolph.__file__

# ---- production LifxLanApi on top of stubbed lifxlan devices ----
import logging
import lifxlan

from bardolph.controller import i_controller, lifx_lan_api, light_set
from bardolph.controller.script_job import ScriptJob
from bardolph.fakes import fake_clock
from bardolph.lib import injection, log_config, settings, std_out_output
from bardolph.runtime import runtime_module


class StubDevice:
    def __init__(self, label, features=None, tile=None):
        self.label = label
        self.features = features or {}
        self.tile = tile
        self.calls = []

    def get_label(self): return self.label
    def get_group(self): return 'G'
    def get_location(self): return 'L'
    def get_product_features(self): return self.features
    def get_product_name(self): return 'stub'
    def get_color(self): return [1, 2, 3, 4]
    def get_power(self): return 65535

    def set_color(self, color, duration, rapid):
        self.calls.append(('set_color', list(color), duration, rapid))

    def set_power(self, power, duration, rapid):
        self.calls.append(('set_power', power, duration, rapid))

    def req_with_resp(self, req, resp, payload=None):
        class Chain:
            pass
        chain = Chain()
        chain.tile_devices = [self.tile]
        chain.start_index = 0
        self.calls.append(('req_with_resp', req.__name__))
        return chain

    def fire_and_forget(self, msg_type, payload, num_repeats=1):
        self.calls.append(('fire_and_forget', msg_type.__name__, payload))


def configure(devices):
    class StubLan:
        def __init__(self, num_lights=None):
            pass
        def get_lights(self):
            return devices
    lifxlan.LifxLAN = StubLan

    injection.configure()
    settings.using({
        'log_level': logging.ERROR,
        'log_to_console': True,
        'single_light_discover': True,
        'use_fakes': False
    }).configure()
    log_config.configure()
    fake_clock.configure()
    lifx_lan_api.configure()
    light_set.configure()
    std_out_output.configure()
    runtime_module.configure()


def run(script):
    job = ScriptJob.from_string(script)
    assert job.program is not None, job.compile_errors
    job.execute()

stub = sys.modules[__name__]
# ---- end of stub set-up ----


dev_a = stub.StubDevice('A')
dev_b = stub.StubDevice('B')
stub.configure([dev_a, dev_b])
stub.run('hue 120 saturation 100 brightness 50 kelvin 2700 duration 2 '
         'set "A" on "A" hue 240 set "B"')
expected_a = [('set_color', [21845, 65535, 32768, 2700], 2000, True),
              ('set_power', 65535, 2000, True)]
expected_b = [('set_color', [43690, 65535, 32768, 2700], 2000, True)]
print('A:', dev_a.calls)
print('B:', dev_b.calls)
ok = dev_a.calls == expected_a and dev_b.calls == expected_b
print('OK' if ok else 'VIOLATION: commands did not reach the devices')
sys.exit(0 if ok else 1)
