# Demo for M1947 (C02): [sqrt 0] is 0 (sqrt of any non-negative number is its root).
import os, sys
ROOT = os.path.dirname(os.path.dirname(os.path.abspath(__file__)))
os.chdir(ROOT)
sys.path.insert(0, ROOT)
import warnings; warnings.simplefilter("ignore")
import bardolph
assert bardolph.__file__.startswith(ROOT), bardolph.__file__

from tests import test_module
test_module.configure()
from bardolph.controller.script_job import ScriptJob

job = ScriptJob.from_string(
    'assign a [sqrt 0] assign b [sqrt 4] assign c {[sqrt {5 - 5}] + 1}')
assert job.program is not None, job.compile_errors
job.execute()
stack = job.get_machine_state().call_stack
values = [stack.get_variable(n) for n in 'abc']
print(values)
if values != [0, 2, 1]:
    print('FAIL: expected [0, 2, 1]')
    sys.exit(1)
print('OK')
sys.exit(0)
