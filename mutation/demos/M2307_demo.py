"""C06: for every input the compiler finishes with accept or a line-numbered
rejection.  A misplaced `not` after an `or` operand must be rejected, not send
the expression parser into an endless loop."""
import os, sys, threading
sys.path.insert(0, '/tmp/wm-M06')
from tests import test_module
from bardolph.parser.parse import Parser

test_module.configure()
result = {}

def compile_it():
    parser = Parser()
    result['ok'] = parser.parse('assign x {1 or 2 not 3}\non all\n')
    result['errors'] = parser.get_errors()

thread = threading.Thread(target=compile_it, daemon=True)
thread.start()
thread.join(10.0)
if thread.is_alive():
    print('FAIL: compiler did not finish within 10 s (endless loop)')
    sys.stdout.flush()
    os._exit(1)
print(result)
good = result['ok'] is False and 'Line 1' in result['errors']
sys.exit(0 if good else 1)
