"""C20: a request for the manifest-listed path "off" (route /off) must start
the listed script and hand its (escaped) ScriptControl to the action page,
without raising.  Stub flask module, temporary manifest."""
import json, os, shutil, sys, time, types
sys.path.insert(0, '.')

flask = types.ModuleType('flask')
rendered = []
class _Blueprint:
    def __init__(self, *a, **k): pass
    def route(self, *a, **k): return lambda fn: fn
class _Request:
    headers = {'User-Agent': 'demo'}
flask.Blueprint = _Blueprint
flask.Flask = object
flask.request = _Request()
flask.render_template = lambda name, **kw: rendered.append((name, kw)) or name
sys.modules['flask'] = flask

from tests import test_module
from bardolph.controller import i_controller
from bardolph.lib import injection, settings

tmp = os.path.join(os.path.dirname(os.path.abspath(__file__)), '_tmp_M2431')
shutil.rmtree(tmp, ignore_errors=True)
os.makedirs(tmp)
with open(os.path.join(tmp, 'off-all.ls'), 'w') as f:
    f.write('off all\n')
manifest = os.path.join(tmp, 'manifest.json')
with open(manifest, 'w') as f:
    json.dump([{'file_name': 'off-all.ls', 'path': 'off',
                'title': '<b>Off</b>', 'background': 'b', 'color': 'c'}], f)

test_module.configure()
settings.Settings._the_config.update(
    {'manifest_file_name': manifest, 'script_path': tmp})

from web import front_end, i_web, web_app
app = web_app.WebApp()
injection.bind_instance(app).to(i_web.WebApp)
fe = front_end.fe


def finish(code, msg):
    print(msg)
    shutil.rmtree(tmp, ignore_errors=True)
    sys.stdout.flush()
    os._exit(code)


try:
    fe.off()
except Exception as ex:
    finish(1, 'FAIL: GET /off raised {!r}'.format(ex))
end = time.time() + 3
while app._jobs.has_jobs() and time.time() < end:
    time.sleep(0.02)
api = injection.provide(i_controller.LightApi)
if len(api.get_call_list()) != 1:
    finish(1, 'FAIL: off script did not run exactly once: {}'.format(
        api.get_call_list()))
if not rendered or rendered[-1][0] != 'action.html':
    finish(1, 'FAIL: action page not rendered: {}'.format(rendered))
script = rendered[-1][1].get('script')
if getattr(script, 'title', None) != '&lt;b&gt;Off&lt;/b&gt;':
    finish(1, 'FAIL: page did not get the escaped script control')
finish(0, 'ok')
