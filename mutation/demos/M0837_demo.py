"""M0837: the hue register must start at zero (docs: "Any uninitialized values
default to zero").  A script that never sets hue must transmit hue 0."""
import sys
sys.path.insert(0, '/tmp/wm-M11')
import bardolph
assert bardolph.__file__.startswith('/tmp/wm-M11/'), bardolph.__file__

from tests import test_module
from bardolph.controller import i_controller
from bardolph.controller.script_job import ScriptJob
from bardolph.fakes.activity_monitor import Action
from bardolph.lib.injection import provide

test_module.configure()
job = ScriptJob.from_string(
    'saturation 100 brightness 50 kelvin 2700 set all set "Top"')
assert job.program is not None, job.compile_errors
job.execute()

api = provide(i_controller.LightApi)
expected = (Action.SET_COLOR, [0, 65535, 32768, 2700], 0)
ok = True
got_all = api.get_call_list()
if got_all != [expected]:
    print('set all sent', got_all, 'expected', [expected])
    ok = False
top = provide(i_controller.LightSet).get_light('Top')
if top.get_call_list() != [expected]:
    print('set "Top" sent', top.get_call_list(), 'expected', [expected])
    ok = False
print('OK' if ok else 'PROPERTY C01 VIOLATED')
sys.exit(0 if ok else 1)
