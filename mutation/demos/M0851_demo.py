import sys, os, io, contextlib, logging
ROOT = os.path.dirname(os.path.dirname(os.path.abspath(__file__)))
sys.path.insert(0, ROOT)
os.chdir(ROOT)
import bardolph
assert os.path.abspath(bardolph.__file__).startswith(ROOT + os.sep), bardolph.__file__
# C07 (literal reading): transmitted hue == round((deg mod 360)/360*65535).
# NOTE: marginal. 65535 and 0 denote the same angle, and the clean tree snaps
# to 0 the same way inside its own (4x narrower) band, e.g. at 359.999995.
from tests import test_module
from bardolph.controller.script_job import ScriptJob
from bardolph.controller import i_controller
from bardolph.lib.injection import provide

bad = 0
for deg in (359.99998, -0.00002, 719.99998):
    test_module.configure()
    job = ScriptJob.from_string('hue {:.8f} saturation 50 brightness 50 kelvin 2700 set "Top"'.format(deg))
    assert job.program is not None, job.compile_errors
    job.execute()
    top = [l for l in provide(i_controller.LightApi).get_lights() if l.get_name() == 'Top'][0]
    sent = top.get_call_list()[-1][1][0]
    expected = round((deg % 360.0) / 360.0 * 65535.0)
    ok = sent == expected
    print('hue {}: sent {}, formula {} {}'.format(deg, sent, expected, 'ok' if ok else 'WRONG'))
    bad += not ok
sys.exit(1 if bad else 0)
