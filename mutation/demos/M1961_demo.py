import sys; sys.path.insert(0, "/tmp/wm-M07")
# C20: a request for path p starts the script the manifest lists for p.
# The shipped manifest lists off-all.ls under path "off"; GET /off is routed
# to FrontEnd.off(), which must queue that script.
import bardolph; assert bardolph.__file__.startswith("/tmp/wm-M07"), bardolph.__file__
import os, time, types
os.chdir("/tmp/wm-M07")

# stub flask
flask = types.ModuleType("flask")
class Blueprint:
    def __init__(self, *a, **k): pass
    def route(self, *a, **k): return lambda fn: fn
flask.Blueprint = Blueprint
flask.render_template = lambda tmpl, **kw: (tmpl, kw)
flask.request = types.SimpleNamespace(headers={'User-Agent': 'desktop'})
sys.modules["flask"] = flask

from tests import test_module
from bardolph.controller import i_controller
from bardolph.lib import injection, settings
from bardolph.lib.injection import provide
from bardolph.fakes.activity_monitor import Action
test_module.configure()
settings.Settings._the_config["script_path"] = "scripts"
from web import web_app, i_web, front_end
app = web_app.WebApp()
injection.bind_instance(app).to(i_web.WebApp)

assert 'off' in app._scripts and app._scripts['off'].file_name == 'off-all.ls'
page = front_end.off()          # what the /off route calls
assert page[0] == 'action.html'
deadline = time.time() + 5
while app._jobs.has_jobs() and time.time() < deadline:
    time.sleep(0.01)
calls = provide(i_controller.LightApi).get_call_list()
if (Action.SET_POWER, False, 1500) not in calls:
    print("FAIL: request for /off did not run off-all.ls; api calls:", calls)
    sys.exit(1)
print("ok", calls)
