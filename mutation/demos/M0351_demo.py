import sys
sys.path.insert(0, '/tmp/wm-M16')
import bardolph
assert bardolph.__file__.startswith('/tmp/wm-M16/'), bardolph.__file__
# C06 (accepted script must run without an internal VM fault) / C01 (the set
# after the printf must still reach the light). printf's named field {operand}
# is looked up as a register; Registers.operand is read before any action
# instruction has stored it.
import logging
from tests import test_module
from bardolph.controller import i_controller
from bardolph.controller.script_job import ScriptJob
from bardolph.lib.injection import provide

test_module.configure()
test_module.replace_print()
errors = []
class _H(logging.Handler):
    def emit(self, record):
        if record.levelno >= logging.ERROR:
            errors.append(record.getMessage())
logging.getLogger().addHandler(_H())

job = ScriptJob.from_string(
    'assign operand 5 printf "{operand}\\n" hue 120 set "Top"')
assert job.program is not None, job.compile_errors
job.execute()
top = [l for l in provide(i_controller.LightApi).get_lights()
       if l.get_name() == 'Top'][0]
calls = top.get_call_list()
print('errors logged:', errors)
print('calls to Top:', calls)
bad = 0
if any('Machine stopped' in e for e in errors):
    print('VM internal fault on an accepted script')
    bad = 1
if len(calls) != 1:
    print('the set after the printf never reached the light')
    bad = 1
sys.exit(bad)
