"""
C20 demo: a request for a path listed in the manifest must start the script the
manifest lists for it (here: emulating FrontEnd.run_script without flask).
Also, manifest_file_name = None must give an empty, working WebApp.
Exit 0 = property holds, 1 = violated.
"""
import json
import logging
import os
import sys
import atexit
import shutil
import tempfile
import time

sys.path.insert(0, os.getcwd())

from bardolph.controller import i_controller, light_set
from bardolph.fakes import fake_clock, fake_light_api
from bardolph.fakes.activity_monitor import Action
from bardolph.lib import injection, log_config, settings, std_out_output
from bardolph.lib.injection import provide
from bardolph.runtime import runtime_module

WORK = tempfile.mkdtemp(
    prefix='wm_m1556_', dir=os.path.dirname(os.path.abspath(__file__)))
atexit.register(shutil.rmtree, WORK, True)


def configure(manifest_name):
    injection.configure()
    settings.using({
        'log_level': logging.CRITICAL, 'log_to_console': True,
        'single_light_discover': True, 'use_fakes': True,
        'manifest_file_name': manifest_name,
        'script_path': WORK}).configure()
    log_config.configure()
    fake_clock.configure()
    fake_light_api.using((('Alpha', 'G', 'L'),)).configure()
    light_set.configure()
    std_out_output.configure()
    runtime_module.configure()


def run_script(web_app, path):
    # What web.front_end.FrontEnd.run_script does with the request.
    script_control = web_app.get_script_control(path)
    if script_control is not None:
        if not script_control.running:
            web_app.queue_script(script_control)
        return True
    return False


def main():
    with open(os.path.join(WORK, 'turn-on.ls'), 'w') as out_file:
        out_file.write('on "Alpha"\n')
    manifest = os.path.join(WORK, 'manifest.json')   # absolute: join() keeps it
    with open(manifest, 'w') as out_file:
        json.dump([{'file_name': 'turn-on.ls', 'background': '#222',
                    'color': 'Linen'}], out_file)

    from web.web_app import WebApp

    ok = True
    configure(manifest)
    try:
        web_app = WebApp()
    except Exception as ex:
        print('FAIL: WebApp() raised', repr(ex))
        return 1
    listed = [script.path for script in web_app.get_script_list()]
    if listed != ['turn-on']:
        print('FAIL: manifest paths are', listed, 'expected ["turn-on"]')
        ok = False
    started = run_script(web_app, 'turn-on')
    deadline = time.time() + 5
    while web_app._jobs.has_jobs() and time.time() < deadline:
        time.sleep(0.01)
    light = provide(i_controller.LightApi).get_lights()[0]
    calls = [call for call in light.get_call_list()
             if call[0] is Action.SET_POWER]
    if not started or len(calls) != 1:
        print('FAIL: request for /turn-on started={} power calls={}'.format(
            started, calls))
        ok = False
    if run_script(web_app, 'not-listed'):
        print('FAIL: unlisted path started something')
        ok = False

    configure(None)
    try:
        if WebApp().get_script_list() != []:
            print('FAIL: manifest_file_name None should give no scripts')
            ok = False
    except Exception as ex:
        print('FAIL: WebApp() with manifest_file_name None raised', repr(ex))
        ok = False

    print('OK' if ok else 'C20 violated')
    return 0 if ok else 1


if __name__ == '__main__':
    sys.exit(main())
