"""
C11 demo: `time at P` must compile for every well-formed pattern that matches
some time of day and must be rejected for impossible/malformed patterns.
Exit 0 = property holds, 1 = violated.
"""
import os
import sys

sys.path.insert(0, os.getcwd())

from tests import test_module
from bardolph.parser.parse import Parser
from bardolph.vm.vm_codes import OpCode


def main():
    test_module.configure()
    ok = True
    for pattern in ('12:00', '1:30', '*:15', '2*:*5', '*:*', '9:4*'):
        parser = Parser()
        accepted = parser.parse('time at {} on all'.format(pattern))
        insts = [inst for inst in parser.get_program()
                 if inst.op_code is OpCode.TIME_PATTERN] if accepted else []
        if not accepted or len(insts) != 1 or insts[0].param1 is None:
            ok = False
            print('FAIL: valid pattern {} rejected: {}'.format(
                pattern, parser.get_errors().strip()))
        elif not any(insts[0].param1.match(h, m)
                     for h in range(24) for m in range(60)):
            ok = False
            print('FAIL: accepted pattern {} matches nothing'.format(pattern))
    parser = Parser()
    if not parser.parse('time at 8:00 or 9:15 or 2*:30 on all'):
        ok = False
        print('FAIL: alternatives rejected:', parser.get_errors().strip())
    for pattern in ('25:00', '12:60', '3*:00', '12:6*'):
        parser = Parser()
        if parser.parse('time at {} on all'.format(pattern)):
            ok = False
            print('FAIL: impossible pattern {} accepted'.format(pattern))
    print('OK' if ok else 'C11 violated')
    return 0 if ok else 1


if __name__ == '__main__':
    sys.exit(main())
