"""
M2369: Registers.__init__ no longer initialises self.first_row.

C19: a named printf field takes the current register of that name
(vm_io._printf resolves every name the Register enum knows through
Registers.get_by_enum). On the clean tree `printf "{first_row}"` prints "None" and
the script carries on; with the patch the attribute does not exist, the VM dies
with AttributeError (an internal fault on an accepted script, cf. C06) and
nothing after the printf is written. Also (C17) Registers.reset() can no longer
clear a value left by an earlier run on the same machine.
Exit 0 = property holds, 1 = violated.
"""
import sys
sys.path.insert(0, '/tmp/wm-M13')
import bardolph
assert bardolph.__file__.startswith('/tmp/wm-M13'), bardolph.__file__

from bardolph.controller.script_job import ScriptJob
from tests import test_module

test_module.configure()
output = test_module.replace_print()

job = ScriptJob.from_string('printf "r={first_row}\\n" println 5')
assert job.program is not None, job.compile_errors
job.execute()
text = ''.join(str(obj) for obj in output.get_objects())
print(repr(text))
if text != 'r=None\n5\n':
    print('VIOLATION: expected %r' % 'r=None\n5\n')
    sys.exit(1)

# Second half: nothing carries over between runs of one machine.
output = test_module.replace_print()
job = ScriptJob.from_string(
    'set "Candle" row 2 3 column 1 printf "{first_row}" println 1')
job.execute()
job.load_string('printf "{first_row}" println 2')
job.execute()
text = ''.join(str(obj) for obj in output.get_objects())
print(repr(text))
if not text.endswith('None2\n'):
    print('VIOLATION: register value survived Machine.reset()')
    sys.exit(1)
print('ok')
sys.exit(0)
