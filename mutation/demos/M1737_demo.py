# Demo for M1737 (C15): 'set L zone a b' must reach the multizone device (zones a..b, once).
import os, sys
ROOT = os.path.dirname(os.path.dirname(os.path.abspath(__file__)))
os.chdir(ROOT)
sys.path.insert(0, ROOT)
import warnings; warnings.simplefilter("ignore")
import bardolph
assert bardolph.__file__.startswith(ROOT), bardolph.__file__


class StubImpl:
    """Stands in for the lifxlan device object (no network)."""
    def __init__(self, label, features):
        self.label, self.features, self.calls = label, features, []
    def get_label(self): return self.label
    def get_group(self): return "g"
    def get_location(self): return "l"
    def get_product_features(self): return self.features
    def get_product_name(self): return "stub"
    def set_color(self, *args): self.calls.append(("set_color",) + args)
    def set_power(self, *args): self.calls.append(("set_power",) + args)
    def set_zone_color(self, *args): self.calls.append(("set_zone_color",) + args)
    def fire_and_forget(self, msg_type, payload, **kw):
        self.calls.append(("fire_and_forget", msg_type.__name__, payload))


class StubApi:
    def __init__(self, lights): self.lights = lights
    def get_lights(self): return self.lights
    def set_color_all_lights(self, *_): pass
    def set_power_all_lights(self, *_): pass


def install(lights):
    from tests import test_module
    from bardolph.controller import i_controller, light_set
    from bardolph.lib.injection import bind_instance
    test_module.configure()
    bind_instance(StubApi(lights)).to(i_controller.LightApi)
    light_set.configure()


def run(script):
    from bardolph.controller.script_job import ScriptJob
    job = ScriptJob.from_string(script)
    assert job.program is not None, job.compile_errors
    job.execute()


def fail(msg):
    print("FAIL:", msg)
    sys.exit(1)

from bardolph.controller import lifx_lan_light

impl = StubImpl('Z', {'multizone': True})
install([lifx_lan_light.MultizoneLight(impl, 8)])
run('units raw hue 10 saturation 20 brightness 30 kelvin 40 duration 50 '
    'set "Z" zone 2 4')
print(impl.calls)
# Machine hands the driver the half-open range [2, 5) = zones 2..4.
if impl.calls != [('set_zone_color', 2, 5, [10, 20, 30, 40], 50)]:
    fail('zones 2..4 of "Z" were not coloured exactly once')
print('OK')
sys.exit(0)
