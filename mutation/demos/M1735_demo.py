import sys; sys.path.insert(0, "/tmp/wm-M07")
# C12: discovery never raises.  (Also C18: capturing a real multizone light.)
# A fake lifxlan network layer in which every request succeeds, with one plain
# and one multizone device.
import bardolph; assert bardolph.__file__.startswith("/tmp/wm-M07"), bardolph.__file__
import logging
import lifxlan
from bardolph.lib import injection, settings, log_config
from bardolph.controller import i_controller, lifx_lan_api, light_set
from bardolph.controller.snapshot import ScriptSnapshot

class Impl:
    def __init__(self, name, multizone):
        self.name, self.mz = name, multizone
        self.zones = [[i * 100, 2, 3, 3500] for i in range(8)]
    def get_label(self): return self.name
    def get_group(self): return 'g'
    def get_location(self): return 'l'
    def get_product_features(self): return {'multizone': self.mz}
    def get_product_name(self): return 'x'
    def get_color(self): return [1, 2, 3, 4]
    def get_power(self): return 0
    def get_color_zones(self, first=None, last=None):
        return self.zones[first:last]

class FakeLan:
    def __init__(self, n=None): pass
    def get_lights(self): return [Impl('bulb', False), Impl('strip', True)]
lifxlan.LifxLAN = FakeLan

injection.configure()
settings.using({'log_level': logging.ERROR, 'log_to_console': True,
                'single_light_discover': True}).configure()
log_config.configure()
lifx_lan_api.configure()
ls = light_set.LightSet()
try:
    ok = ls.discover()
except Exception as ex:
    print("FAIL: discovery raised", repr(ex)); sys.exit(1)
if not ok or list(ls.get_light_names()) != ['bulb', 'strip']:
    print("FAIL: discovery result", ok, list(ls.get_light_names())); sys.exit(1)
injection.bind_instance(ls).to(i_controller.LightSet)
try:
    text = ScriptSnapshot().generate(None).text
except Exception as ex:
    print("FAIL: capture raised", repr(ex)); sys.exit(1)
if 'set "strip" zone 7' not in text:
    print("FAIL: capture lacks the zones:\n", text); sys.exit(1)
print("ok")
