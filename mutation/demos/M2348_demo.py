"""C19 (with C02's built-in results): [cycle 0] is already in 0..360 and comes
back unchanged, i.e. the integer 0 just like [cycle 1] gives the integer 1.
print must write "0", and printf "{:03d}" must write "000" exactly as
"{:03d}".format(0) would; the script must go on to its next command."""
import sys
sys.path.insert(0, '/tmp/wm-M06')
from tests import test_module
from bardolph.controller import i_controller
from bardolph.controller.script_job import ScriptJob
from bardolph.lib.injection import provide

test_module.configure()
out = test_module.replace_print()
job = ScriptJob.from_string(
    r'print [cycle 1] print [cycle 0] printf " {:03d} {:03d}\n" [cycle 1] [cycle 0] on all')
assert job.program is not None, job.compile_errors
job.execute()
text = ''.join(str(obj) for obj in out.get_objects())
calls = provide(i_controller.LightApi).get_call_list()
print(repr(out.get_objects()), calls)
ok = text.replace(' ', '') == '10001000\n' and len(calls) == 1
if not ok:
    print('FAIL: output {!r}, commands after printf: {}'.format(text, calls))
sys.exit(0 if ok else 1)
