#!/usr/bin/env python3
"""Confirm a seeded change produced by a sub-agent and run the checks on it.

usage: tools/seed_eval.py <seed id> <property id> <worktree> [--keep]

In the sub-agent's scratch worktree (never /repo):
  1. revert to HEAD, run the demo        -> must exit 0
  2. apply patch.diff, byte-compile       -> must succeed
  3. run the demo                         -> must exit 1
  4. run the pinned test suite            -> the 186 baseline tests must pass
  5. run ./check <all claimed properties> --repo <worktree> (no evidence)
and store patch.diff, the demo, REPORT.md and meta.json under
/verif/seeded/<seed id>/.
"""
import json
import os
import shutil
import subprocess
import sys
import xml.etree.ElementTree as ET

VERIF = os.path.dirname(os.path.dirname(os.path.abspath(__file__)))
PY = '/venv/bin/python'


def sh(cmd, cwd=None, timeout=1800):
    p = subprocess.run(cmd, shell=True, cwd=cwd, capture_output=True, text=True,
                       timeout=timeout)
    return p.returncode, (p.stdout + p.stderr)


def baseline(wt):
    out = os.path.join(wt, '.junit.xml')
    sh('%s -m pytest -q -p no:cacheprovider --timeout=900 '
       '--continue-on-collection-errors --junitxml=%s' % (PY, out), cwd=wt)
    base = set(json.load(open('/root/.vp/BASELINE.json'))['stable_pass'])
    passed = set()
    for tc in ET.parse(out).getroot().iter('testcase'):
        if not any(c.tag in ('failure', 'error', 'skipped') for c in tc):
            passed.add('%s::%s' % (tc.get('classname'), tc.get('name')))
    os.remove(out)
    return sorted(base - passed)


def main():
    seed_id, prop, wt = sys.argv[1:4]
    patch = sys.argv[4] if len(sys.argv) > 4 else 'patch.diff'
    prefix = sys.argv[5] if len(sys.argv) > 5 else 'demo_'
    demo = [f for f in os.listdir(wt) if f.startswith(prefix) and f.endswith('.py')]
    if not demo or not os.path.exists(os.path.join(wt, patch)):
        print('missing demo or', patch, 'in', wt)
        return 2
    demo = demo[0]
    meta = dict(seed=seed_id, property=prop, worktree=wt, ran=[])
    # make sure patch.diff is what is applied
    sh('git checkout -- bardolph web', cwd=wt)
    rc0, out0 = sh('%s %s' % (PY, demo), cwd=wt, timeout=600)
    meta['demo_without_change'] = dict(exit=rc0, tail=out0[-600:])
    rca, outa = sh('git apply %s' % patch, cwd=wt)
    if rca != 0:
        print('patch does not apply:', outa)
        return 2
    rcc, outc = sh('%s -m compileall -q bardolph web' % PY, cwd=wt)
    sh('find . -name __pycache__ -prune -exec rm -rf {} +', cwd=wt)
    rc1, out1 = sh('%s %s' % (PY, demo), cwd=wt, timeout=600)
    meta['demo_with_change'] = dict(exit=rc1, tail=out1[-600:])
    missing = baseline(wt)
    meta['baseline_missing_with_change'] = missing
    meta['compiles'] = rcc == 0
    confirmed = rc0 == 0 and rc1 != 0 and not missing and rcc == 0
    meta['confirmed'] = confirmed
    # run the checks
    manifest = json.load(open(os.path.join(VERIF, 'MANIFEST.json')))
    results = {}
    for chk in manifest['checks']:
        pid = chk['property_id']
        rc, out = sh('./check %s --tier quick --repo %s --no-evidence' % (pid, wt),
                     cwd=VERIF, timeout=600)
        if rc != 0:
            lines = [l for l in out.splitlines()
                     if l.strip().startswith('R') or 'VIOLATION' in l
                     or 'ANALYSIS-ERROR' in l]
            results[pid] = dict(exit=rc, lines=lines[:6])
    meta['checks_raising'] = results
    meta['caught_by_own_property'] = prop in results and results[prop]['exit'] == 1
    meta['caught_by_any'] = any(r['exit'] == 1 for r in results.values())
    meta['ran'] = ['git checkout -- bardolph web; %s %s' % (PY, demo),
                   'git apply %s; %s %s' % (patch, PY, demo),
                   'pytest (pinned command) compared with BASELINE.json',
                   './check <Cnn> --tier quick --repo %s --no-evidence for every '
                   'claimed property' % wt]
    dst = os.path.join(VERIF, 'seeded', seed_id)
    os.makedirs(dst, exist_ok=True)
    for f, name in ((patch, 'patch.diff'), (demo, demo), ('REPORT.md', 'REPORT.md')):
        if os.path.exists(os.path.join(wt, f)):
            shutil.copy2(os.path.join(wt, f), os.path.join(dst, name))
    with open(os.path.join(dst, 'meta.json'), 'w') as fh:
        json.dump(meta, fh, indent=1)
        fh.write('\n')
    print(json.dumps({k: meta[k] for k in ('seed', 'confirmed', 'caught_by_own_property',
                                            'caught_by_any')}))
    for pid, r in results.items():
        print(' ', pid, r['exit'], *r['lines'][:2], sep='\n    ')
    return 0


if __name__ == '__main__':
    sys.exit(main())
