#!/bin/sh
# Runs the repository's pinned test suite (guard off: there are no hooks) and
# compares the passing set with /root/.vp/BASELINE.json's stable_pass list.
OUT=$(mktemp /var/tmp/bardolph-junit.XXXXXX.xml)
cd /repo && /venv/bin/python -m pytest -ra -q -p no:cacheprovider --timeout=900 \
    --continue-on-collection-errors --junitxml="$OUT" >/var/tmp/bardolph-pytest.log 2>&1
/venv/bin/python - "$OUT" <<'PY'
import json, sys, xml.etree.ElementTree as ET
base = set(json.load(open('/root/.vp/BASELINE.json'))['stable_pass'])
passed = set()
for tc in ET.parse(sys.argv[1]).getroot().iter('testcase'):
    if not any(c.tag in ('failure', 'error', 'skipped') for c in tc):
        passed.add('%s::%s' % (tc.get('classname'), tc.get('name')))
missing = sorted(base - passed)
print('baseline %d, passing now %d, missing %d' % (len(base), len(passed & base), len(missing)))
for m in missing:
    print('  NOT PASSING:', m)
sys.exit(1 if missing else 0)
PY
rc=$?
rm -f "$OUT"
exit $rc
