#!/usr/bin/env python3
"""Run the current rules on the triaged mutants (mutation/triage.json +
mutation/demos/<id>.diff): BREAKS ones should be reported, EQUIVALENT /
OUT-OF-SCOPE ones should stay silent.  usage: tools/triage_check.py [--jobs N]"""
import json
import os
import shutil
import subprocess
import sys
import tempfile
import warnings

VERIF = os.path.dirname(os.path.dirname(os.path.abspath(__file__)))


def one(row):
    warnings.simplefilter('ignore')
    sys.path.insert(0, VERIF)
    tmp = tempfile.mkdtemp(prefix='bardolph-triage-', dir='/var/tmp')
    try:
        subprocess.run('cp -r /repo/bardolph /repo/web %s/; find %s -name __pycache__ '
                       '-prune -exec rm -rf {} +' % (tmp, tmp), shell=True)
        d = os.path.join(VERIF, 'mutation', 'demos', row['id'] + '.diff')
        pr = subprocess.run(['patch', '-p1', '-s', '-i', d], cwd=tmp,
                            capture_output=True, text=True)
        if pr.returncode != 0:
            return row['id'], None, ['patch does not apply']
        from sa.analysis import Analysis
        from sa import rules as _r   # noqa: F401
        from sa.report import RULES, load_known, match_known
        from sa.index import AnalysisError
        flagged, errors = [], []
        try:
            A = Analysis(tmp)
            known = load_known()
            for r in RULES:
                try:
                    run = A.run_rule(r)
                except AnalysisError as ex:
                    errors.append('%s: %s' % (r.id, str(ex)[:80]))
                    continue
                except Exception as ex:      # noqa: BLE001
                    errors.append('%s: %s %s' % (r.id, type(ex).__name__, str(ex)[:60]))
                    continue
                for f in run.findings:
                    if match_known(f, known) is None:
                        flagged.append(r.id)
        except AnalysisError as ex:
            errors.append('analysis: %s' % str(ex)[:100])
        return row['id'], sorted(set(flagged)), errors[:3]
    finally:
        shutil.rmtree(tmp, ignore_errors=True)


def main():
    from multiprocessing import Pool
    rows = json.load(open(os.path.join(VERIF, 'mutation', 'triage.json')))
    jobs = int(sys.argv[sys.argv.index('--jobs') + 1]) if '--jobs' in sys.argv else 16
    byid = {r['id']: r for r in rows}
    res = {}
    with Pool(jobs) as pool:
        for mid, flagged, errors in pool.imap_unordered(one, rows):
            res[mid] = (flagged, errors)
    stats = {}
    for mid, (flagged, errors) in sorted(res.items()):
        v = byid[mid]['verdict']
        cls = 'BREAKS' if v.startswith('BREAKS') else \
            'EQUIVALENT' if v.startswith('EQUIV') else 'OUT-OF-SCOPE'
        hit = bool(flagged or errors)
        stats.setdefault(cls, [0, 0])
        stats[cls][0] += 1
        stats[cls][1] += hit
        mark = {('BREAKS', True): 'caught ', ('BREAKS', False): 'MISSED ',
                ('EQUIVALENT', True): 'ALARM  ', ('EQUIVALENT', False): 'silent ',
                ('OUT-OF-SCOPE', True): 'alarm? ', ('OUT-OF-SCOPE', False): 'silent '}[(cls, hit)]
        if '--all' in sys.argv or mark.strip() in ('MISSED', 'ALARM', 'alarm?'):
            r = byid[mid]
            print('%s %s %-12s %s:%d %s %s %s' % (
                mark, mid, v[:12], r['file'].split('/')[-1], r['line'], r['func'],
                ','.join(flagged or []), errors or ''))
    for cls, (n, hit) in sorted(stats.items()):
        print('%-13s %3d mutants, %3d reported' % (cls, n, hit))


if __name__ == '__main__':
    main()
