#!/usr/bin/env python3
"""Run every claimed check on behaviour-preserving patches.

usage: tools/benign_eval.py <worktree> [pattern]

For each <worktree>/benign_*.diff: apply it to the clean worktree, run
`./check <Cnn> --repo <worktree> --no-evidence` for every claimed property and
report every exit status other than 0 (1 = false alarm, 2 = analysis error).
"""
import glob
import json
import os
import subprocess
import sys

VERIF = os.path.dirname(os.path.dirname(os.path.abspath(__file__)))


def sh(cmd, cwd=None):
    p = subprocess.run(cmd, shell=True, cwd=cwd, capture_output=True, text=True)
    return p.returncode, p.stdout + p.stderr


def main():
    wt = sys.argv[1]
    pat = sys.argv[2] if len(sys.argv) > 2 else 'benign_*.diff'
    manifest = json.load(open(os.path.join(VERIF, 'MANIFEST.json')))
    props = [c['property_id'] for c in manifest['checks']]
    total = bad = 0
    for diff in sorted(glob.glob(os.path.join(wt, pat))):
        sh('git checkout -- bardolph web', cwd=wt)
        rc, out = sh('git apply %s' % diff, cwd=wt)
        if rc != 0:
            print('%s: does not apply: %s' % (os.path.basename(diff), out.strip()[:100]))
            continue
        total += 1
        procs = {}
        for p in props:
            procs[p] = subprocess.Popen(
                './check %s --tier quick --repo %s --no-evidence' % (p, wt),
                shell=True, cwd=VERIF, stdout=subprocess.PIPE,
                stderr=subprocess.STDOUT, text=True)
        alarms = []
        for p, pr in procs.items():
            out, _ = pr.communicate()
            if pr.returncode != 0:
                lines = [l.strip() for l in out.splitlines()
                         if l.strip().startswith('R') or 'ANALYSIS-ERROR' in l]
                alarms.append((p, pr.returncode, lines[:3]))
        if alarms:
            bad += 1
            print('%s:' % os.path.basename(diff))
            for p, rc, lines in alarms:
                print('   %s exit %d' % (p, rc))
                for l in lines:
                    print('      ' + l[:230])
        else:
            print('%s: silent' % os.path.basename(diff))
    sh('git checkout -- bardolph web', cwd=wt)
    print('%s: %d patches, %d with alarms' % (wt, total, bad))


if __name__ == '__main__':
    main()
