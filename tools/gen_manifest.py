#!/usr/bin/env python3
"""Regenerates /verif/MANIFEST.json from the rule registry (run from /verif)."""
import json
import os
import sys
import warnings

warnings.simplefilter('ignore')
VERIF = os.path.dirname(os.path.dirname(os.path.abspath(__file__)))
sys.path.insert(0, VERIF)

from sa import rules as _rules          # noqa: E402,F401
from sa.report import RULES             # noqa: E402
from sa.analysis import PROPERTY_TEXT   # noqa: E402

NOT_APPLICABLE = {
    'C10': 'every clause relates wall-clock instants and thread schedules '
           '(never early, at most one tick late, lateness not accumulated); '
           'the only source facts are single statements whose check would be '
           'a frozen fragment; no sound static argument bounds timing',
}

TECHNIQUE = {
    'C01': 'AST/CFG lint: dispatch-table exhaustiveness, backward dataflow of '
           'operand kinds to emission sites, sanitise-before-sink provenance',
    'C02': 'table agreement over folded constants and regex AST; partial '
           'evaluation of Token.prec/assoc; path-sensitive CFG query',
    'C03': 'undefined-attribute lint; CFG must-pass-through on the calling '
           'sequence; frame push/pop effect table; alias check on constructors',
}


def main():
    props = []
    with open(os.path.join(VERIF, 'properties.jsonl')) as f:
        for line in f:
            if line.strip():
                props.append(json.loads(line))
    by_prop = {}
    for r in RULES:
        for p in r.props:
            by_prop.setdefault(p, []).append(r)
    checks, na = [], []
    for p in props:
        pid = p['id']
        if pid in NOT_APPLICABLE:
            na.append(dict(property_id=pid, reason=NOT_APPLICABLE[pid]))
            continue
        if pid not in by_prop:
            na.append(dict(property_id=pid,
                           reason='no rule registered yet for this property in '
                                  'this revision of /verif (see DESIGN.md section 3 '
                                  'for the planned rules)'))
            continue
        rules = by_prop[pid]
        dec, notdec = PROPERTY_TEXT.get(pid, ('', ''))
        checks.append(dict(
            property_id=pid,
            quick_cmd='./check %s --tier quick' % pid,
            thorough_cmd='./check %s --tier thorough' % pid,
            evidence_file='/verif/evidence/%s.json' % pid,
            replay_cmd_template='./check %s --replay {path}' % pid,
            engine='sa',
            level_claimed=dict(
                category='other',
                text='Static analysis of the current /repo source (no '
                     'execution): rules %s. Decides structural necessary '
                     'conditions of the property on every path / instance of '
                     'the analysed constructs: %s NOT decided: %s'
                     % (', '.join(r.id for r in rules), dec, notdec),
                design_ref='DESIGN.md section 3, %s' % pid),
            level_note='Trusted base: CPython ast, sa/cfg.py CFG (exception '
                       'edges only inside try), sa/resolve.py callee resolution '
                       '(unresolved anchors fail closed with exit 2), oracle '
                       'tables quoted from the property text in sa/rules. A '
                       'pass means the listed structural obligations hold, not '
                       'that the behavioural statement was verified.',
            technique=TECHNIQUE.get(pid, 'static analysis: AST/CFG/call-graph '
                                         'rules specific to this repository'),
        ))
    manifest = dict(
        version=1,
        setup_cmd='true',
        hooks=dict(
            guard='AL_FONTES_JR_BARDOLPH_VERIF',
            enable='none needed: the checks read the source of /repo and never '
                   'build or run it; no hook commits exist',
            baseline_off_cmd='/verif/tools/baseline.sh',
            source_commits=[],
            add_only=True),
        engines=[dict(name='sa', path='/verif/sa',
                      serves_properties=[c['property_id'] for c in checks],
                      kind_free_text='repository-specific static analysis '
                                     '(stdlib ast, hand-built CFG, call graph, '
                                     'constant folding); self-test on scratch '
                                     'copies in the thorough tier')],
        checks=checks,
        not_applicable=na,
        notes='exit 0 = all rule instances discharged (KNOWN-FINDING lines '
              'for findings listed in known_findings.json); exit 1 + VIOLATION '
              'line = unlisted finding; exit 2 = ANALYSIS-ERROR (anchor '
              'vanished / instance floor not met / self-test of the checker '
              'failed).')
    with open(os.path.join(VERIF, 'MANIFEST.json'), 'w') as f:
        json.dump(manifest, f, indent=1)
        f.write('\n')
    print('claimed: %s' % ' '.join(c['property_id'] for c in checks))
    print('not applicable: %s' % ' '.join(x['property_id'] for x in na))


if __name__ == '__main__':
    main()
