#!/usr/bin/env python3
"""Regenerates /verif/MANIFEST.json from the rule registry (run from /verif)."""
import json
import os
import sys
import warnings

warnings.simplefilter('ignore')
VERIF = os.path.dirname(os.path.dirname(os.path.abspath(__file__)))
sys.path.insert(0, VERIF)

from sa import rules as _rules          # noqa: E402,F401
from sa.report import RULES             # noqa: E402
from sa.analysis import PROPERTY_TEXT   # noqa: E402

NOT_APPLICABLE = {
    'C10': 'every clause relates wall-clock instants and thread schedules '
           '(never early, at most one tick late, lateness not accumulated); '
           'the only source facts are single statements whose check would be '
           'a frozen fragment; no sound static argument bounds timing',
}

TECHNIQUE = {
    'C01': 'AST/CFG lint: dispatch-table exhaustiveness, backward dataflow of '
           'operand kinds to emission sites, sanitise-before-sink provenance',
    'C02': 'table agreement over folded constants and regex AST; partial '
           'evaluation of Token.prec/assoc; path-sensitive CFG query',
    'C03': 'undefined-attribute lint; CFG must-pass-through on the calling '
           'sequence; frame push/pop effect table; alias check on constructors',
    'C04': 'CFG ordering / must-pass-through queries on the loop compiler; '
           'who-may-emit; library-semantics table for bisect',
    'C05': 'emission pairing on the CFG; affine abstract evaluation of the '
           'offset arithmetic; call-graph reachability into open branch spans',
    'C06': 'verdict discipline of the computed parse-routine closure '
           '(backward path justification), interprocedural must-consume, '
           'keyword-domain folding, guard dominance, non-None analysis',
    'C07': 'sanitise-before-sink provenance; clamp-interval evaluation; '
           'symbolic linear coefficients of the conversion functions',
    'C08': 'lock-held regions on the CFG (guarded-by), acquire/release '
           'pairing incl. exception edges, single-start-site and ordering rules',
    'C09': 'stop-flag dataflow: loop-condition conjunct, ignored wait() '
           'results, re-arming stores reachable from thread entries, '
           'post-dominating clean-up',
    'C11': 'domain agreement over folded constants and normalised '
           'comparisons; mutating-method/alias rule; regex identity',
    'C12': 'capability-guard dominance (interprocedural one level), '
           'decorator audit, fail-value use analysis, None-guard dominance',
    'C13': 'consistency-group update discipline on the CFG, who-may-mutate '
           'rules, raw-mutator lint on SortedList',
    'C14': 'table totality over folded dicts; ordering and sibling-symmetry '
           'rules on the mode switch; pass-through check',
    'C15': 'half-open/inclusive bound rule, single-sink rule, ordering on '
           'the CFG, sibling symmetry of the two axes',
    'C16': 'regex-AST analysis of the folded token specification; table '
           'agreement; alternative-order rule',
    'C17': 'upward-exposed-read (must-define) analysis over persistent '
           'object state with interprocedural summaries; global-state and '
           'instruction-store lints',
    'C18': 'template well-formedness against the lexer keyword/register '
           'tables; component-coverage rules; arity check',
    'C19': 'DI binding vs statefulness rule; boolean truth-table equivalence '
           'of the two field predicates; post-dominance of flush',
    'C20': 'who-may-call, argument provenance from route handlers, '
           'escape-at-construction, None-guard dominance, arity check',
}


def main():
    props = []
    with open(os.path.join(VERIF, 'properties.jsonl')) as f:
        for line in f:
            if line.strip():
                props.append(json.loads(line))
    by_prop = {}
    for r in RULES:
        for p in r.props:
            by_prop.setdefault(p, []).append(r)
    checks, na = [], []
    for p in props:
        pid = p['id']
        if pid in NOT_APPLICABLE:
            na.append(dict(property_id=pid, reason=NOT_APPLICABLE[pid]))
            continue
        if pid not in by_prop:
            na.append(dict(property_id=pid,
                           reason='no rule registered yet for this property in '
                                  'this revision of /verif (see DESIGN.md section 3 '
                                  'for the planned rules)'))
            continue
        rules = by_prop[pid]
        dec, notdec = PROPERTY_TEXT.get(pid, ('', ''))
        checks.append(dict(
            property_id=pid,
            quick_cmd='./check %s --tier quick' % pid,
            thorough_cmd='./check %s --tier thorough' % pid,
            evidence_file='/verif/evidence/%s.json' % pid,
            replay_cmd_template='./check %s --replay {path}' % pid,
            engine='sa',
            level_claimed=dict(
                category='other',
                text='Static analysis of the current /repo source (no '
                     'execution): rules %s. Decides structural necessary '
                     'conditions of the property on every path / instance of '
                     'the analysed constructs: %s NOT decided: %s'
                     % (', '.join(r.id for r in rules), dec, notdec),
                design_ref='DESIGN.md section 3, %s' % pid),
            level_note='Trusted base: CPython ast, sa/cfg.py CFG (exception '
                       'edges only inside try), sa/resolve.py callee resolution '
                       '(unresolved anchors fail closed with exit 2), oracle '
                       'tables quoted from the property text in sa/rules. A '
                       'pass means the listed structural obligations hold, not '
                       'that the behavioural statement was verified.',
            technique=TECHNIQUE.get(pid, 'static analysis: AST/CFG/call-graph '
                                         'rules specific to this repository'),
        ))
    manifest = dict(
        version=1,
        setup_cmd='true',
        hooks=dict(
            guard='AL_FONTES_JR_BARDOLPH_VERIF',
            enable='none needed: the checks read the source of /repo and never '
                   'build or run it; no hook commits exist',
            baseline_off_cmd='/verif/tools/baseline.sh',
            source_commits=[],
            add_only=True),
        engines=[dict(name='sa', path='/verif/sa',
                      serves_properties=[c['property_id'] for c in checks],
                      kind_free_text='repository-specific static analysis '
                                     '(stdlib ast, hand-built CFG, call graph, '
                                     'constant folding); self-test on scratch '
                                     'copies in the thorough tier')],
        checks=checks,
        not_applicable=na,
        notes='exit 0 = all rule instances discharged (KNOWN-FINDING lines '
              'for findings listed in known_findings.json); exit 1 + VIOLATION '
              'line = unlisted finding; exit 2 = ANALYSIS-ERROR (anchor '
              'vanished / instance floor not met / self-test of the checker '
              'failed).')
    with open(os.path.join(VERIF, 'MANIFEST.json'), 'w') as f:
        json.dump(manifest, f, indent=1)
        f.write('\n')
    print('claimed: %s' % ' '.join(c['property_id'] for c in checks))
    print('not applicable: %s' % ' '.join(x['property_id'] for x in na))


if __name__ == '__main__':
    main()
