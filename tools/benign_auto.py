#!/usr/bin/env python3
"""Automatic behaviour-preserving rewrites of the whole repository, to test
that no rule depends on layout or on the names of local variables.

  mode 'unparse' : every module re-printed with ast.unparse (layout, quotes,
                   parentheses, comments all change; semantics do not)
  mode 'rename'  : additionally every function-local variable that is not a
                   parameter is renamed (x -> x_v)

usage: tools/benign_auto.py <mode> [--keep]
Runs every claimed check with --repo <scratch copy>; prints non-zero exits.
"""
import ast
import json
import os
import shutil
import subprocess
import sys
import tempfile
import warnings

VERIF = os.path.dirname(os.path.dirname(os.path.abspath(__file__)))
sys.path.insert(0, VERIF)
warnings.simplefilter('ignore')


class LocalRenamer(ast.NodeTransformer):
    def visit_FunctionDef(self, node):
        params = set(a.arg for a in node.args.posonlyargs + node.args.args +
                     node.args.kwonlyargs)
        if node.args.vararg:
            params.add(node.args.vararg.arg)
        if node.args.kwarg:
            params.add(node.args.kwarg.arg)
        declared = set()
        nested_names = set()
        for n in ast.walk(node):
            if isinstance(n, (ast.Global, ast.Nonlocal)):
                declared |= set(n.names)
            if n is not node and isinstance(n, (ast.FunctionDef, ast.ClassDef, ast.Lambda)):
                nested_names.add(getattr(n, 'name', None))
        has_nested = any(n is not node and isinstance(
            n, (ast.FunctionDef, ast.Lambda, ast.ListComp, ast.SetComp,
                ast.DictComp, ast.GeneratorExp, ast.ClassDef))
            for n in ast.walk(node))
        locals_ = set()
        if not has_nested:       # closures / comprehensions: leave alone
            for n in ast.walk(node):
                if isinstance(n, ast.Name) and isinstance(n.ctx, ast.Store):
                    locals_.add(n.id)
                if isinstance(n, ast.ExceptHandler) and n.name:
                    pass
        locals_ -= params | declared | nested_names | {'_', '__'}
        if locals_:
            for n in ast.walk(node):
                if isinstance(n, ast.Name) and n.id in locals_:
                    n.id = n.id + '_v'
        self.generic_visit(node)
        return node


def _negate(test):
    if isinstance(test, ast.UnaryOp) and isinstance(test.op, ast.Not):
        return test.operand
    if isinstance(test, ast.Compare) and len(test.ops) == 1:
        swap = {ast.Is: ast.IsNot, ast.IsNot: ast.Is, ast.In: ast.NotIn,
                ast.NotIn: ast.In}
        for a, b in swap.items():
            if isinstance(test.ops[0], a):
                return ast.Compare(test.left, [b()], test.comparators)
    return ast.UnaryOp(ast.Not(), test)


class IfSwapper(ast.NodeTransformer):
    """if c: A else: B  ->  if not c: B else: A   (plain else only)"""
    def visit_If(self, node):
        self.generic_visit(node)
        if node.orelse and not (len(node.orelse) == 1 and
                                isinstance(node.orelse[0], ast.If)):
            return ast.If(_negate(node.test), node.orelse, node.body)
        return node


class AndNester(ast.NodeTransformer):
    """if a and b: X (no else)  ->  if a: if b: X"""
    def visit_If(self, node):
        self.generic_visit(node)
        if not node.orelse and isinstance(node.test, ast.BoolOp) and \
                isinstance(node.test.op, ast.And):
            inner = node.body
            for t in reversed(node.test.values):
                inner = [ast.If(t, inner, [])]
            return inner[0]
        return node


class EarlyReturner(ast.NodeTransformer):
    """a function ending in  if c: return X  return Y   ->  if/else form, and
    the reverse is covered by the agents' patches; here: trailing
    `if c: ...return` + rest  ->  if c: ... else: rest"""
    def visit_FunctionDef(self, node):
        self.generic_visit(node)
        body = node.body
        for i, st in enumerate(body[:-1]):
            if isinstance(st, ast.If) and not st.orelse and st.body and \
                    isinstance(st.body[-1], ast.Return) and i >= len(body) - 3:
                rest = body[i + 1:]
                node.body = body[:i] + [ast.If(st.test, st.body, rest)]
                break
        return node


class Extractor(ast.NodeTransformer):
    """extract-method: in every method, the first run of >= 2 consecutive
    top-level statements that are plain calls / attribute stores (no local is
    bound, no control flow) moves into a new private method of the class,
    which receives the locals it reads as parameters."""
    def visit_ClassDef(self, node):
        new_body = []
        for item in node.body:
            new_body.append(item)
            if isinstance(item, ast.FunctionDef) and item.args.args and \
                    item.args.args[0].arg == 'self' and \
                    not any(ast.unparse(d) in ('staticmethod', 'classmethod', 'property')
                            or ast.unparse(d).endswith('.setter')
                            for d in item.decorator_list):
                helper = self._extract(item, node.name)
                if helper is not None:
                    new_body.append(helper)
        node.body = new_body
        return node

    @staticmethod
    def _simple(st):
        if isinstance(st, ast.Expr) and isinstance(st.value, ast.Call):
            ok = True
        elif isinstance(st, (ast.Assign, ast.AugAssign)):
            targets = st.targets if isinstance(st, ast.Assign) else [st.target]
            ok = all(isinstance(t, ast.Attribute) or isinstance(t, ast.Subscript)
                     for t in targets)
        else:
            return False
        for x in ast.walk(st):
            if isinstance(x, (ast.Yield, ast.YieldFrom, ast.Await, ast.NamedExpr,
                              ast.Lambda, ast.ListComp, ast.SetComp, ast.DictComp,
                              ast.GeneratorExp)):
                return False
            if isinstance(x, ast.Name) and isinstance(x.ctx, ast.Store):
                return False
            if isinstance(x, ast.Call) and isinstance(x.func, ast.Name) \
                    and x.func.id == 'super':
                return False
        return ok

    def _extract(self, fn, cls_name=''):
        body = fn.body
        start = 1 if body and isinstance(body[0], ast.Expr) and \
            isinstance(body[0].value, ast.Constant) else 0
        i = start
        while i < len(body):
            j = i
            while j < len(body) and self._simple(body[j]):
                j += 1
            if j - i >= 2:
                break
            i = max(j, i + 1)
        else:
            return None
        run = body[i:j]
        local_names = set(a.arg for a in fn.args.args + fn.args.kwonlyargs)
        if fn.args.vararg:
            local_names.add(fn.args.vararg.arg)
        if fn.args.kwarg:
            local_names.add(fn.args.kwarg.arg)
        for x in ast.walk(fn):
            if isinstance(x, ast.Name) and isinstance(x.ctx, ast.Store):
                local_names.add(x.id)
        used = []
        for st in run:
            for x in ast.walk(st):
                if isinstance(x, ast.Name) and x.id in local_names \
                        and x.id != 'self' and x.id not in used:
                    used.append(x.id)
        # unique per class: a subclass must not override the base's helper
        name = '_x_%s%s_%s_part' % (getattr(self, 'tag', ''), cls_name.lower(),
                                    fn.name.strip('_'))
        helper = ast.FunctionDef(
            name=name,
            args=ast.arguments(posonlyargs=[], args=[ast.arg('self')] + [
                ast.arg(u) for u in used], kwonlyargs=[], kw_defaults=[],
                defaults=[]),
            body=run, decorator_list=[], type_params=[])
        call = ast.Expr(ast.Call(
            ast.Attribute(ast.Name('self', ast.Load()), name, ast.Load()),
            [ast.Name(u, ast.Load()) for u in used], []))
        fn.body = body[:i] + [call] + body[j:]
        return helper


MODES = {'rename': LocalRenamer, 'ifswap': IfSwapper, 'nest': AndNester,
         'earlyret': EarlyReturner, 'extract': Extractor}


def transform(src, mode, tag=''):
    tree = ast.parse(src)
    if mode in MODES:
        tr = MODES[mode]()
        tr.tag = tag            # two classes of one name in different modules
        tree = tr.visit(tree)
        ast.fix_missing_locations(tree)
    return ast.unparse(tree) + '\n'


def main():
    mode = sys.argv[1]
    from sa.selftest import _copy_tree
    tmp = tempfile.mkdtemp(prefix='bardolph-benign-', dir='/var/tmp')
    try:
        _copy_tree('/repo', tmp)
        n = 0
        for dirpath, _d, files in os.walk(tmp):
            for fn in files:
                if fn.endswith('.py'):
                    p = os.path.join(dirpath, fn)
                    src = open(p, encoding='utf-8').read()
                    out = transform(src, mode, tag=fn[:-3].replace('_', '') + '_')
                    compile(out, p, 'exec')
                    open(p, 'w', encoding='utf-8').write(out)
                    n += 1
        print('rewrote %d modules (%s) in %s' % (n, mode, tmp))
        manifest = json.load(open(os.path.join(VERIF, 'MANIFEST.json')))
        procs = {}
        for c in manifest['checks']:
            pid = c['property_id']
            procs[pid] = subprocess.Popen(
                './check %s --tier quick --repo %s --no-evidence' % (pid, tmp),
                shell=True, cwd=VERIF, stdout=subprocess.PIPE,
                stderr=subprocess.STDOUT, text=True)
        bad = 0
        for pid, pr in procs.items():
            out, _ = pr.communicate()
            if pr.returncode != 0:
                bad += 1
                print('%s exit %d' % (pid, pr.returncode))
                for l in out.splitlines():
                    if l.strip().startswith('R') or 'ANALYSIS-ERROR' in l or 'construct:' in l:
                        print('    ' + l.strip()[:240])
        print('%d checks, %d not silent' % (len(procs), bad))
    finally:
        if '--keep' not in sys.argv:
            shutil.rmtree(tmp, ignore_errors=True)


if __name__ == '__main__':
    main()
