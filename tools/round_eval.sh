#!/bin/sh
# tools/round_eval.sh <round> <Cnn>...  - confirm round-<n> seeds in /tmp/wt-Cnn and run the checks on them
r=$1; shift
for c in "$@"; do
  ( cd /verif && /venv/bin/python tools/seed_eval.py S-$c-$r $c ${WT:-/tmp/wt}-$c patch$r.diff demo${r}_ > /tmp/eval_${c}_$r.log 2>&1 ) &
done
wait
for c in "$@"; do echo "== $c"; cat /tmp/eval_${c}_$r.log; done
