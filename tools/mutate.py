#!/usr/bin/env python3
"""Generic mutation sweep: how many test-surviving one-token changes of the
anchor files do the checks report?

  tools/mutate.py gen  [--sample N] [--seed S]      -> out/mutants.json
  tools/mutate.py run  [--jobs 16] [--limit N]       -> out/mutation_results.json
  tools/mutate.py show [--unflagged] [--kind K]

gen   enumerates mutation points in the property anchor files (ast positions,
      source-level splice, so the rest of the file keeps its text).
run   per mutant, on a scratch copy under /var/tmp (removed afterwards):
      byte-compile; run every rule in-process (findings not in
      known_findings.json); if nothing is reported, run the pinned test suite
      (minus the two tests that fail on the unchanged tree) to see whether the
      tests notice.
The sweep is a measuring instrument for the checker, not a check: nothing in
MANIFEST.json depends on it. Unreported survivors are candidates for triage
(equivalent mutant, irrelevant code, or a genuine gap).
"""
import ast
import json
import os
import random
import shutil
import subprocess
import sys
import tempfile
import time
import warnings

VERIF = os.path.dirname(os.path.dirname(os.path.abspath(__file__)))
REPO = '/repo'
OUT = os.path.join(VERIF, 'out')
PY = '/venv/bin/python'

SKIP_FILES = ('web/manifest.json', 'bardolph/controller/run.py',
              'bardolph/controller/ls_module.py')
SKIP_FUNCS = ('main', '__repr__', '_print_time', 'get_agent_class')


def anchor_files():
    files = set()
    for line in open(os.path.join(VERIF, 'properties.jsonl')):
        files |= set(json.loads(line)['anchors']['files'])
    return sorted(f for f in files if f.endswith('.py') and f not in SKIP_FILES)


def offsets(src):
    starts = [0]
    for line in src.splitlines(keepends=True):
        starts.append(starts[-1] + len(line))
    return starts


def pos(starts, lineno, col, src_bytes_line=None):
    return starts[lineno - 1] + col


class Gen(ast.NodeVisitor):
    def __init__(self, rel, src):
        self.rel = rel
        self.src = src
        self.lines = src.splitlines(keepends=True)
        self.starts = offsets(src)
        self.out = []
        self.func = []
        self.skip_depth = 0

    def span(self, node):
        # col offsets are in utf-8 bytes; files are ascii enough: verify
        s = self.starts[node.lineno - 1] + node.col_offset
        e = self.starts[node.end_lineno - 1] + node.end_col_offset
        return s, e

    def add(self, node, new_text, kind):
        s, e = self.span(node)
        old = self.src[s:e]
        if old == new_text:
            return
        self.out.append(dict(file=self.rel, start=s, end=e, old=old,
                             new=new_text, kind=kind, line=node.lineno,
                             func='.'.join(self.func) or '<module>'))

    def visit_FunctionDef(self, node):
        if node.name in SKIP_FUNCS:
            return
        self.func.append(node.name)
        for st in node.body:
            self.visit(st)
        self.func.pop()

    visit_AsyncFunctionDef = visit_FunctionDef

    def visit_ClassDef(self, node):
        self.func.append(node.name)
        for st in node.body:
            self.visit(st)
        self.func.pop()

    def visit_If(self, node):
        t = ast.unparse(node.test)
        if t.startswith("__name__"):
            return
        self.add(node.test, 'not (%s)' % t, 'negate-cond')
        self.generic_visit(node)

    def visit_While(self, node):
        self.add(node.test, 'not (%s)' % ast.unparse(node.test), 'negate-cond')
        self.generic_visit(node)

    def visit_Expr(self, node):
        v = node.value
        if isinstance(v, ast.Constant):
            return                       # docstring
        if isinstance(v, ast.Call):
            fn = ast.unparse(v.func)
            if fn.startswith(('logging.', 'print', 'warnings.')) or \
                    '.debug' in fn or '.info' in fn or '.warning' in fn \
                    or '.error' in fn:
                return
            self.add(node, 'pass', 'del-call')
        self.generic_visit(node)

    def visit_Assign(self, node):
        if len(node.targets) == 1 and isinstance(node.targets[0], ast.Attribute):
            self.add(node, 'pass', 'del-attr-assign')
        self.generic_visit(node)

    def visit_Compare(self, node):
        if len(node.ops) == 1:
            swap = {ast.Lt: '<=', ast.LtE: '<', ast.Gt: '>=', ast.GtE: '>',
                    ast.Eq: '!=', ast.NotEq: '==', ast.Is: 'is not',
                    ast.IsNot: 'is', ast.In: 'not in', ast.NotIn: 'in'}
            op = swap.get(type(node.ops[0]))
            if op:
                self.add(node, '%s %s %s' % (ast.unparse(node.left), op,
                                             ast.unparse(node.comparators[0])),
                         'cmp-op')
        self.generic_visit(node)

    def visit_BoolOp(self, node):
        joiner = ' or ' if isinstance(node.op, ast.And) else ' and '
        self.add(node, '(' + joiner.join('(%s)' % ast.unparse(v)
                                         for v in node.values) + ')', 'and-or')
        self.generic_visit(node)

    def visit_UnaryOp(self, node):
        if isinstance(node.op, ast.Not):
            self.add(node, '(%s)' % ast.unparse(node.operand), 'drop-not')
        self.generic_visit(node)

    def visit_BinOp(self, node):
        swap = {ast.Add: '-', ast.Sub: '+', ast.Mult: '/', ast.Div: '*'}
        op = swap.get(type(node.op))
        if op and not (isinstance(node.left, ast.Constant)
                       and isinstance(node.left.value, str)):
            self.add(node, '(%s %s %s)' % (ast.unparse(node.left), op,
                                           ast.unparse(node.right)), 'arith-op')
        self.generic_visit(node)

    def visit_Constant(self, node):
        v = node.value
        if isinstance(v, bool):
            self.add(node, str(not v), 'bool-const')
        elif isinstance(v, int) and abs(v) <= 100000:
            self.add(node, str(v + 1), 'int-const')
        elif isinstance(v, float):
            self.add(node, repr(v + 1.0), 'float-const')

    def visit_Call(self, node):
        if len(node.args) == 2 and not node.keywords and not any(
                isinstance(a, ast.Starred) for a in node.args):
            a, b = ast.unparse(node.args[0]), ast.unparse(node.args[1])
            if a != b:
                fn = ast.unparse(node.func)
                if not fn.startswith(('logging.', 'isinstance', 'join')):
                    self.add(node, '%s(%s, %s)' % (fn, b, a), 'swap-args')
        self.generic_visit(node)

    def visit_Return(self, node):
        if node.value is not None and isinstance(node.value, ast.Constant) \
                and isinstance(node.value.value, bool):
            pass                          # covered by bool-const
        self.generic_visit(node)

    def visit_AnnAssign(self, node):
        if node.value is not None:
            self.visit(node.value)

    def visit_arguments(self, node):
        return                            # defaults / annotations left alone


def gen(sample, seed):
    muts = []
    for rel in anchor_files():
        p = os.path.join(REPO, rel)
        src = open(p, encoding='utf-8').read()
        if not src.isascii():
            continue
        g = Gen(rel, src)
        g.visit(ast.parse(src))
        muts += g.out
    # keep only mutants that compile
    ok = []
    for m in muts:
        src = open(os.path.join(REPO, m['file']), encoding='utf-8').read()
        new = src[:m['start']] + m['new'] + src[m['end']:]
        try:
            warnings.simplefilter('ignore')
            compile(new, m['file'], 'exec')
        except SyntaxError:
            continue
        ok.append(m)
    random.Random(seed).shuffle(ok)
    if sample:
        ok = ok[:sample]
    for i, m in enumerate(ok):
        m['id'] = 'M%04d' % i
    os.makedirs(OUT, exist_ok=True)
    json.dump(ok, open(os.path.join(OUT, 'mutants.json'), 'w'), indent=0)
    kinds = {}
    for m in ok:
        kinds[m['kind']] = kinds.get(m['kind'], 0) + 1
    print('%d mutation points (%d after sampling): %s' % (len(muts), len(ok), kinds))


def run_one(m):
    warnings.simplefilter('ignore')
    sys.path.insert(0, VERIF)
    tmp = tempfile.mkdtemp(prefix='bardolph-mut-', dir='/var/tmp')
    res = dict(id=m['id'], file=m['file'], line=m['line'], func=m['func'],
               kind=m['kind'], old=m['old'][:80], new=m['new'][:80])
    t0 = time.time()
    try:
        subprocess.run('cp -r %s/bardolph %s/web %s/tests %s/ && cp %s/*.ini %s/*.py %s/ 2>/dev/null; '
                       'find %s -name __pycache__ -prune -exec rm -rf {} +'
                       % (REPO, REPO, REPO, tmp, REPO, REPO, tmp, tmp),
                       shell=True)
        p = os.path.join(tmp, m['file'])
        src = open(p, encoding='utf-8').read()
        assert src[m['start']:m['end']] == m['old'], 'stale mutant'
        open(p, 'w', encoding='utf-8').write(
            src[:m['start']] + m['new'] + src[m['end']:])
        from sa.analysis import Analysis
        from sa import rules as _r   # noqa: F401
        from sa.report import RULES, load_known, match_known
        from sa.index import AnalysisError
        flagged, errors = [], []
        try:
            A = Analysis(tmp)
            known = load_known()
            for r in RULES:
                try:
                    run = A.run_rule(r)
                except AnalysisError as ex:
                    errors.append('%s: %s' % (r.id, str(ex)[:80]))
                    continue
                except Exception as ex:      # noqa: BLE001
                    errors.append('%s: %s %s' % (r.id, type(ex).__name__, str(ex)[:60]))
                    continue
                for f in run.findings:
                    if match_known(f, known) is None:
                        flagged.append(r.id)
        except AnalysisError as ex:
            errors.append('analysis: %s' % str(ex)[:100])
        res['flagged'] = sorted(set(flagged))
        res['analysis_errors'] = errors[:5]
        res['check_s'] = round(time.time() - t0, 1)
        if not flagged and not errors:
            t1 = time.time()
            pr = subprocess.run(
                'timeout -k 5 600 %s -m pytest -q -x -p no:cacheprovider --timeout=120 '
                '--deselect tests/script_test.py::ScriptTest::test_script '
                '--deselect tests/trace_test.py::test_callback 2>&1 | tail -3'
                % PY, shell=True, cwd=tmp, capture_output=True, text=True,
                timeout=900)
            res['tests'] = 'pass' if ' passed' in pr.stdout and \
                'failed' not in pr.stdout and 'error' not in pr.stdout else 'fail'
            res['tests_tail'] = pr.stdout.strip()[-120:]
            res['test_s'] = round(time.time() - t1, 1)
    except Exception as ex:      # noqa: BLE001
        res['exception'] = '%s: %s' % (type(ex).__name__, str(ex)[:120])
    finally:
        shutil.rmtree(tmp, ignore_errors=True)
    return res


def run(jobs, limit):
    from multiprocessing import Pool
    muts = json.load(open(os.path.join(OUT, 'mutants.json')))
    if limit:
        muts = muts[:limit]
    done = {}
    rp = os.path.join(OUT, 'mutation_results.json')
    if os.path.exists(rp):
        done = {r['id']: r for r in json.load(open(rp))}
    todo = [m for m in muts if m['id'] not in done]
    print('%d mutants, %d already done' % (len(muts), len(muts) - len(todo)))
    t0 = time.time()
    with Pool(jobs) as pool:
        for i, r in enumerate(pool.imap_unordered(run_one, todo)):
            done[r['id']] = r
            if (i + 1) % 50 == 0 or i + 1 == len(todo):
                json.dump(list(done.values()), open(rp, 'w'), indent=0)
                print('%d/%d  %.0fs' % (i + 1, len(todo), time.time() - t0),
                      flush=True)
    summary(list(done.values()))


def check_only(m):
    """rules only (no tests) for one mutant: -> (id, flagged rules, errors)"""
    warnings.simplefilter('ignore')
    sys.path.insert(0, VERIF)
    tmp = tempfile.mkdtemp(prefix='bardolph-mut-', dir='/var/tmp')
    try:
        subprocess.run('cp -r %s/bardolph %s/web %s/ ; find %s -name __pycache__ '
                       '-prune -exec rm -rf {} +' % (REPO, REPO, tmp, tmp), shell=True)
        p = os.path.join(tmp, m['file'])
        src = open(p, encoding='utf-8').read()
        if src[m['start']:m['end']] != m['old']:
            return m['id'], None, ['stale']
        open(p, 'w', encoding='utf-8').write(
            src[:m['start']] + m['new'] + src[m['end']:])
        from sa.analysis import Analysis
        from sa import rules as _r   # noqa: F401
        from sa.report import RULES, load_known, match_known
        from sa.index import AnalysisError
        flagged, errors = [], []
        try:
            A = Analysis(tmp)
            known = load_known()
            for r in RULES:
                try:
                    run = A.run_rule(r)
                except AnalysisError as ex:
                    errors.append('%s: %s' % (r.id, str(ex)[:80]))
                    continue
                except Exception as ex:      # noqa: BLE001
                    errors.append('%s: %s %s' % (r.id, type(ex).__name__, str(ex)[:60]))
                    continue
                for f in run.findings:
                    if match_known(f, known) is None:
                        flagged.append(r.id)
        except AnalysisError as ex:
            errors.append('analysis: %s' % str(ex)[:100])
        return m['id'], sorted(set(flagged)), errors[:3]
    finally:
        shutil.rmtree(tmp, ignore_errors=True)


def recheck(jobs, pattern):
    """Re-run the (current) rules on the mutants that survived both the rules
    and the tests in the recorded sweep; report which are caught now."""
    from multiprocessing import Pool
    import re
    muts = {m['id']: m for m in json.load(open(os.path.join(OUT, 'mutants.json')))}
    rp = os.path.join(OUT, 'mutation_results.json')
    rs = json.load(open(rp))
    surv = [r for r in rs if not r.get('flagged') and not r.get('analysis_errors')
            and r.get('tests') == 'pass' and not r.get('triage')]
    if pattern:
        surv = [r for r in surv if re.search(pattern, '%s %s %s' % (
            r['file'], r['func'], r['id']))]
    todo = [muts[r['id']] for r in surv if r['id'] in muts]
    print('re-checking %d surviving mutants' % len(todo))
    byid = {r['id']: r for r in rs}
    caught = 0
    with Pool(jobs) as pool:
        for mid, flagged, errors in pool.imap_unordered(check_only, todo):
            if flagged or errors:
                caught += 1
                byid[mid]['flagged_later'] = flagged
                byid[mid]['errors_later'] = errors
                r = byid[mid]
                print('%s %s:%d %s [%s] -> %s %s' % (
                    mid, r['file'], r['line'], r['func'], r['kind'],
                    ','.join(flagged or []), errors or ''))
    json.dump(rs, open(rp, 'w'), indent=0)
    print('%d of %d now reported' % (caught, len(todo)))


def summary(rs):
    n = len(rs)
    flagged = [r for r in rs if r.get('flagged')]
    err = [r for r in rs if r.get('analysis_errors') and not r.get('flagged')]
    unfl = [r for r in rs if not r.get('flagged') and not r.get('analysis_errors')]
    surv = [r for r in unfl if r.get('tests') == 'pass']
    killed = [r for r in unfl if r.get('tests') == 'fail']
    later = [r for r in surv if r.get('flagged_later') or r.get('errors_later')]
    print('mutants %d: reported by a rule %d, analysis error (fail-closed) %d, '
          'unreported %d (tests kill %d, survive both %d; of those reported '
          'by rules added later %d)'
          % (n, len(flagged), len(err), len(unfl), len(killed), len(surv),
             len(later)))
    return [r for r in surv if r not in later]


def show(args):
    rs = json.load(open(os.path.join(OUT, 'mutation_results.json')))
    surv = summary(rs)
    if '--unflagged' in args:
        for r in sorted(surv, key=lambda r: (r['file'], r['line'])):
            print('%s %s:%d %s [%s] %r -> %r' % (
                r['id'], r['file'], r['line'], r['func'], r['kind'],
                r['old'][:50], r['new'][:50]))


def main():
    cmd = sys.argv[1]
    args = sys.argv[2:]

    def opt(name, default):
        return int(args[args.index(name) + 1]) if name in args else default
    if cmd == 'gen':
        gen(opt('--sample', 0), opt('--seed', 1))
    elif cmd == 'run':
        run(opt('--jobs', 16), opt('--limit', 0))
    elif cmd == 'show':
        show(args)
    elif cmd == 'recheck':
        pat = args[args.index('--match') + 1] if '--match' in args else None
        recheck(opt('--jobs', 16), pat)


if __name__ == '__main__':
    main()
