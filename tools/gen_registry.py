#!/usr/bin/env python3
"""Regenerate "Appendix A - rule registry" at the end of DESIGN.md from the
rule registry (run after adding or changing rules)."""
import os
import re
import sys
import warnings

VERIF = os.path.dirname(os.path.dirname(os.path.abspath(__file__)))
sys.path.insert(0, VERIF)
warnings.simplefilter('ignore')
from sa import rules  # noqa: E402,F401
from sa.report import RULES  # noqa: E402


def key(r):
    m = re.match(r'R(\d+)\.(\w+)', r.id)
    return int(m.group(1)), m.group(2)


lines = ['## Appendix A - rule registry (generated from `sa/rules/*.py`)', '',
         'Every rule, the properties whose check runs it, and the clause it decides.',
         'Sections 3 and 6 explain how the rules came about; this table is the '
         'complete list (%d rules).' % len(RULES), '',
         '| rule | properties | what is checked | decides |', '|---|---|---|---|']
for r in sorted(RULES, key=key):
    lines.append('| %s | %s | %s | %s |' % (
        r.id, ' '.join(r.props), r.title.replace('|', '/'),
        (getattr(r, 'decides', '') or '').replace('|', '/')))
p = os.path.join(VERIF, 'DESIGN.md')
s = open(p).read()
marker = '## Appendix A - rule registry'
if marker in s:
    s = s[:s.index(marker)]
open(p, 'w').write(s.rstrip('\n') + '\n\n' + '\n'.join(lines) + '\n')
print('%d rules' % len(RULES))
